"""Obligation descriptors.  A harness module (harness/Cxx.py) exposes OBLIGATIONS = [Ob(...), ...]."""
import os

TIER = os.environ.get('VERIF_TIER', 'quick')
if TIER not in ('quick', 'thorough'):
    TIER = 'quick'
QUICK = TIER == 'quick'


def tier(quick, thorough):
    """pick a bound by tier"""
    return quick if QUICK else thorough


class Ob:
    """One proof obligation.

    kind='crosshair' (engine E1): ``fn`` is a typed function executed symbolically by CrossHair on the real code;
      it returns True iff the property holds for its arguments (it must catch the exceptions it expects itself).
      ``pre`` is a list of Python expressions over the argument names (the stated bounds).
    kind='custom' (engines E2/E3/E4): ``fn()`` runs the engine and returns a result dict
      {status, message, cex?, paths, queries, solver_s, samples, functions, ...}; ``replay(cex) -> bool`` (True = holds)
      re-executes a counterexample against the real code.
    """

    def __init__(self, name, fn, pre=(), *, kind='crosshair', timeout=60, path_timeout=None,
                 data='', selectors='', bounds='', outside='', stubs='', replay=None, twin=True,
                 weight=None, engine=None, iters=None):
        self.name = name
        self.fn = fn
        self.pre = list(pre)
        self.kind = kind
        self.timeout = timeout
        self.path_timeout = path_timeout
        self.data = data
        self.selectors = selectors
        self.bounds = bounds or '; '.join(self.pre)
        self.outside = outside
        self.stubs = stubs
        self.replay = replay
        self.twin = twin
        self.weight = weight if weight is not None else timeout
        self.engine = engine or ('E1 crosshair' if kind == 'crosshair' else 'custom')
        self.iters = iters

    def describe(self):
        return {'name': self.name, 'engine': self.engine, 'data_vars': self.data, 'selectors': self.selectors,
                'bounds': self.bounds, 'outside_bounds': self.outside, 'stubs': self.stubs}
