"""Orchestrator:  python -m vlib.main <ID> [--tier quick|thorough] [--replay file] [--only glob] [--jobs n]

Loads harness/<ID>.py, discharges every obligation in its own worker process (16 at a time), replays every
counterexample against the real code in plain CPython, matches replayed violations against /verif/known_findings.json,
writes /verif/evidence/<ID>.json and prints the verdict lines.
"""
import argparse
import ast
import concurrent.futures as cf
import fnmatch
import hashlib
import importlib
import json
import os
import subprocess
import sys
import time

ROOT = os.path.dirname(os.path.dirname(os.path.abspath(__file__)))
PY = os.path.join(ROOT, '.venv', 'bin', 'python')
# The code under test is /repo's working tree.  VERIF_REPO=<dir> points the same checks at another checkout (used only to try
# seeded changes in scratch worktrees without touching /repo; registered commands never set it).
REPO = os.environ.get('VERIF_REPO', '/repo').rstrip('/')
SRC = REPO + '/src'
PYPATH = ROOT if REPO == '/repo' else SRC + os.pathsep + ROOT


def load_known():
    p = os.path.join(ROOT, 'known_findings.json')
    if not os.path.exists(p):
        return []
    with open(p) as f:
        return json.load(f).get('findings', [])


def run_worker(modname, ob, extra, tier, scale=1.0):
    cmd = [PY, '-m', 'vlib.chworker', modname, ob.name, '--timeout-scale', str(scale)]
    for e in extra:
        cmd += ['--exclude', e]
    env = dict(os.environ, VERIF_TIER=tier, PYTHONPATH=PYPATH, PYTHONHASHSEED='0')
    hard = ob.timeout * scale * (2.2 if ob.twin and ob.kind == 'crosshair' else 1.2) + 90
    t0 = time.time()
    try:
        p = subprocess.run(cmd, env=env, cwd=ROOT, capture_output=True, text=True, timeout=hard)
        out = p.stdout
        idx = out.rfind('@@RESULT@@')
        if idx < 0:
            return {'name': ob.name, 'status': 'error', 'message': 'worker produced no result (rc=%s): %s' % (
                p.returncode, (p.stderr or '')[-800:]), 'wall_s': round(time.time() - t0, 2)}
        res = json.loads(out[idx + len('@@RESULT@@'):].strip().splitlines()[0])
        return res
    except subprocess.TimeoutExpired:
        return {'name': ob.name, 'status': 'inconclusive', 'message': 'hard wall-clock cap (%ds) hit' % hard,
                'wall_s': round(time.time() - t0, 2)}


def zero_args(ob):
    """the 'smallest' argument tuple of an E1 obligation (0 / False / '' per annotation): what CrossHair's first path typically uses"""
    import inspect
    out = {}
    for name, prm in inspect.signature(ob.fn).parameters.items():
        a = prm.annotation
        out[name] = False if a is bool else 0 if a is int else 0.0 if a is float else '' if a is str else None
    return out


def run_replay(modname, obname, args_repr, tier, after=None):
    """Re-execute one obligation on concrete arguments in plain CPython (no CrossHair). -> dict(ok, detail, functions)"""
    cmd = [PY, '-m', 'vlib.replay', modname, obname, args_repr] + ([after] if after else [])
    env = dict(os.environ, VERIF_TIER=tier, PYTHONPATH=PYPATH, PYTHONHASHSEED='0')
    try:
        p = subprocess.run(cmd, env=env, cwd=ROOT, capture_output=True, text=True, timeout=300)
        idx = p.stdout.rfind('@@REPLAY@@')
        if idx < 0:
            return {'ok': None, 'detail': 'replay crashed: ' + (p.stderr or '')[-500:], 'functions': []}
        return json.loads(p.stdout[idx + len('@@REPLAY@@'):].strip().splitlines()[0])
    except subprocess.TimeoutExpired:
        return {'ok': None, 'detail': 'replay timed out', 'functions': []}


def match_known(known, pid, obname, args_repr):
    try:
        args = ast.literal_eval(args_repr)
    except Exception:
        args = {}
    for k in known:
        if k.get('property') != pid or k.get('status', 'known') != 'known':
            continue
        if not fnmatch.fnmatch(obname, k.get('obligation', '*')):
            continue
        where = k.get('where', 'True')
        try:
            if eval(where, {'__builtins__': __builtins__}, dict(args) if isinstance(args, dict) else {}):
                return k
        except Exception:
            continue
    return None


def discharge(modname, pid, ob, tier, known, scale):
    """Run one obligation to a final verdict, handling replay, model mismatches and known findings."""
    extra, log, known_hits = [], [], []
    agg = {'paths': 0, 'queries': 0, 'solver_s': 0.0, 'wall_s': 0.0, 'main_paths': 0}
    functions = set()
    final = None
    for attempt in range(8):
        res = run_worker(modname, ob, extra, tier, scale)
        for k in ('paths', 'queries'):
            agg[k] += int(res.get(k) or 0)
        agg['main_paths'] = int(res.get('main_paths') if res.get('main_paths') is not None else (res.get('paths') or 0))
        agg['solver_s'] += float(res.get('solver_s') or 0)
        agg['wall_s'] += float(res.get('total_s') or res.get('wall_s') or 0)
        log.append({k: res.get(k) for k in ('status', 'message', 'cex', 'witness', 'paths', 'wall_s')})
        if res.get('witness'):
            rp = run_replay(modname, ob.name, res['witness'], tier)
            functions.update(rp.get('functions') or [])
            if rp.get('ok') is not True:
                res['status'] = 'inconclusive'
                res['message'] = 'twin witness does not replay as satisfied: %s' % rp.get('detail')
        for fnname in res.get('functions') or []:
            functions.add(fnname)
        if res['status'] != 'refuted':
            final = res
            break
        rp = run_replay(modname, ob.name, res['cex'], tier)
        functions.update(rp.get('functions') or [])
        if rp.get('ok') is True and ob.kind == 'crosshair':
            # not reproduced in a fresh process: either CrossHair's model diverged, or the failure needs what an EARLIER symbolic
            # path left behind on a shared object (pre-compiled template, module-level cache).  History replay: the same
            # counterexample after one earlier call with the smallest arguments, in one process.
            za = zero_args(ob)
            for after in (repr(za), repr({k: (True if v is False else 1 if v == 0 and v is not False else 'a' if v == '' else v) for k, v in za.items()})):
                rp2 = run_replay(modname, ob.name, res['cex'], tier, after=after)
                if rp2.get('ok') is False:
                    res['after'] = after
                    rp = dict(rp2, detail='ONLY after an earlier call of the same obligation with %s in the same process (state kept on a shared compiled object): %s' % (after, rp2.get('detail')))
                    break
        if rp.get('ok') is True:
            # counterexample does not reproduce on the real code: encoding/model mismatch, exclude it and retry
            log[-1]['model_mismatch'] = True
            if attempt >= 3 or ob.kind != 'crosshair':
                final = dict(res, status='inconclusive',
                             message='counterexample(s) did not replay on the real code (model mismatch): ' + res['cex'][:200])
                break
            extra.append(cex_as_expr(res['cex']))
            continue
        if rp.get('ok') is None:
            final = dict(res, status='error', message='replay failed: %s' % rp.get('detail'))
            break
        k = match_known(known, pid, ob.name, res['cex'])
        if k is not None:
            known_hits.append({'note': k.get('note', ''), 'where': k.get('where', 'True'), 'cex': res['cex'],
                               'detail': rp.get('detail')})
            where = k.get('where', 'True')
            if where.strip() == 'True' or ob.kind != 'crosshair':
                final = dict(res, status='known', message='known finding: ' + k.get('note', ''))
                break
            extra.append(where)
            continue
        final = dict(res, status='violation', replay_detail=rp.get('detail'))
        break
    else:
        final = dict(res, status='inconclusive', message='gave up after 8 exclusion rounds')
    final = dict(final)
    final.update(agg)
    final['attempts'] = log
    final['known_hits'] = known_hits
    final['functions'] = sorted(functions)
    final['excluded'] = extra
    return final


def cex_as_expr(args_repr):
    args = ast.literal_eval(args_repr)
    return ' and '.join('%s == %r' % (k, v) for k, v in args.items()) or 'True'


def main():
    ap = argparse.ArgumentParser()
    ap.add_argument('pid')
    ap.add_argument('--tier', default=os.environ.get('VERIF_TIER', 'quick'), choices=['quick', 'thorough'])
    ap.add_argument('--replay')
    ap.add_argument('--only')
    ap.add_argument('--jobs', type=int, default=int(os.environ.get('VERIF_JOBS', '16')))
    ap.add_argument('--scale', type=float, default=float(os.environ.get('VERIF_TIMEOUT_SCALE', '1.0')))
    ap.add_argument('--no-evidence', action='store_true')
    a = ap.parse_args()
    os.environ['VERIF_TIER'] = a.tier
    try:
        seed = int(os.environ.get('VERIF_SEED', '0'))
    except ValueError:
        seed = 0
    pid = a.pid
    modname = 'harness.' + pid
    t0 = time.time()
    try:
        import DocumentTemplate
        if not DocumentTemplate.__file__.startswith(SRC + '/'):
            print('harness error: DocumentTemplate imported from %s, not %s' % (DocumentTemplate.__file__, SRC))
            return 3
        mod = importlib.import_module(modname)
    except Exception as e:
        import traceback
        traceback.print_exc()
        print('harness error: cannot import %s: %s' % (modname, e))
        return 3

    if a.replay:
        with open(a.replay) as f:
            r = json.load(f)
        rp = run_replay(modname, r['obligation'], r['args'], r.get('tier', a.tier), after=r.get('after'))
        print('replay %s %s -> %s' % (r['obligation'], r['args'], rp))
        if rp.get('ok') is False:
            print('VIOLATION property=%s replay=%s' % (pid, a.replay))
            return 1
        return 0 if rp.get('ok') else 3

    obs = list(mod.OBLIGATIONS)
    if a.only:
        obs = [o for o in obs if fnmatch.fnmatch(o.name, a.only)]
    # seed only permutes the scheduling order among equal weights (results are deterministic per obligation)
    order = sorted(range(len(obs)), key=lambda i: (-obs[i].weight, hashlib.md5(('%d:%s' % (seed, obs[i].name)).encode()).hexdigest()))
    obs = [obs[i] for i in order]
    known = load_known()
    results = {}
    with cf.ThreadPoolExecutor(max_workers=a.jobs) as ex:
        futs = {ex.submit(discharge, modname, pid, o, a.tier, known, a.scale): o for o in obs}
        for fut in cf.as_completed(futs):
            o = futs[fut]
            try:
                results[o.name] = fut.result()
            except Exception as e:
                results[o.name] = {'status': 'error', 'message': repr(e), 'paths': 0, 'queries': 0, 'solver_s': 0,
                                   'wall_s': 0, 'attempts': [], 'known_hits': [], 'functions': [], 'excluded': []}
            r = results[o.name]
            print('[%s] %-34s %-12s paths=%-5s q=%-6s %6.1fs %s' % (
                pid, o.name, r['status'], r.get('paths'), r.get('queries'), r.get('wall_s') or 0,
                (r.get('message') or '')[:110].replace('\n', ' ')), flush=True)

    # verdicts
    violations, errors, printed_known = [], [], set()
    os.makedirs(os.path.join(ROOT, 'replays', pid), exist_ok=True)
    for o in obs:
        r = results[o.name]
        for kh in r.get('known_hits', []):
            key = (kh['note'], kh['where'])
            if key not in printed_known:
                printed_known.add(key)
                print('KNOWN-FINDING: property=%s %s [obligation %s, e.g. %s]' % (pid, kh['note'], o.name, kh['cex'][:160]))
        if r['status'] == 'violation':
            h = hashlib.sha1((o.name + r['cex']).encode()).hexdigest()[:10]
            path = os.path.join(ROOT, 'replays', pid, '%s-%s.json' % (o.name, h))
            with open(path, 'w') as f:
                json.dump({'property': pid, 'obligation': o.name, 'args': r['cex'], 'after': r.get('after'), 'tier': a.tier,
                           'message': r.get('message'), 'detail': r.get('replay_detail'), 'excluded': r.get('excluded')}, f, indent=1)
            violations.append((o.name, path, r))
        elif r['status'] == 'error':
            errors.append((o.name, r.get('message')))

    wall = time.time() - t0
    if not a.no_evidence and not a.only:
        from vlib.evidence import write_evidence
        write_evidence(ROOT, pid, mod, obs, results, a.tier, seed, wall, len(violations))
    st = [results[o.name]['status'] for o in obs]
    print('[%s] tier=%s obligations=%d confirmed=%d known=%d inconclusive=%d violations=%d errors=%d wall=%.1fs' % (
        pid, a.tier, len(obs), st.count('confirmed'), st.count('known') + sum(
            1 for o in obs if results[o.name]['status'] == 'confirmed' and results[o.name].get('known_hits')),
        st.count('inconclusive'), len(violations), len(errors), wall))
    for name in (o.name for o in obs if results[o.name]['status'] == 'inconclusive'):
        print('  inconclusive: %s -- %s' % (name, (results[name].get('message') or '')[:200].replace('\n', ' ')))
    for name, path, r in violations:
        print('  counterexample %s: %s :: %s' % (name, r['cex'][:300], (r.get('replay_detail') or '')[:300]))
        print('VIOLATION property=%s replay=%s' % (pid, path))
    if violations:
        return 1
    if errors:
        for name, msg in errors:
            print('  harness error in %s: %s' % (name, (msg or '')[:500]))
        return 3
    return 0


if __name__ == '__main__':
    sys.exit(main())
