"""Evidence writer: /verif/evidence/<id>.json, rewritten on every run from what the run measured."""
import json
import os

LEVEL = 'other'

TRUSTED = [
    'CPython 3.12 (/venv)',
    "CrossHair 0.0.110 symbolic models of str/int/list/dict/re (every counterexample is replayed in plain CPython; "
    "a wrong 'confirmed' from an unfaithful model cannot be excluded)",
    'z3 (z3-solver wheel) as CrossHair back end and for E2/E3/E4 queries; cvc5 where named',
    'harness oracles in /verif/harness (written from the property statements)',
    'AccessControl / RestrictedPython / zExceptions / ExtensionClass as installed in /venv',
]


def write_evidence(root, pid, mod, obs, results, tier, seed, wall, nviol):
    st = {o.name: results[o.name] for o in obs}
    confirmed = [n for n, r in st.items() if r['status'] == 'confirmed']
    known = [n for n, r in st.items() if r['status'] == 'known' or r.get('known_hits')]
    inconcl = {n: (r.get('message') or '')[:300] for n, r in st.items() if r['status'] == 'inconclusive'}
    errors = {n: (r.get('message') or '')[:300] for n, r in st.items() if r['status'] == 'error'}
    viol = {n: {'args': r.get('cex'), 'detail': r.get('replay_detail')} for n, r in st.items() if r['status'] == 'violation'}
    paths = sum(int(r.get('paths') or 0) for r in st.values())
    queries = sum(int(r.get('queries') or 0) for r in st.values())
    solver_s = round(sum(float(r.get('solver_s') or 0) for r in st.values()), 2)
    functions = sorted({f for r in st.values() for f in (r.get('functions') or [])})
    samples = []
    for o in obs:
        r = st[o.name]
        if r.get('witness'):
            samples.append({'obligation': o.name, 'kind': 'solver-generated witness (reachability twin), replayed',
                            'args': r['witness']})
        for s in (r.get('samples') or [])[:3]:
            samples.append({'obligation': o.name, 'kind': 'engine sample', 'value': s})
        if r.get('cex') and r['status'] in ('violation', 'known'):
            samples.append({'obligation': o.name, 'kind': 'counterexample (%s), replayed' % r['status'], 'args': r['cex']})
        for kh in r.get('known_hits', [])[:2]:
            samples.append({'obligation': o.name, 'kind': 'known finding counterexample', 'args': kh['cex']})
    if not samples:
        samples.append({'note': 'no witness produced in this run'})
    per_ob = []
    for o in obs:
        r = st[o.name]
        d = o.describe()
        d.update(status=r['status'], paths=r.get('paths'), solver_queries=r.get('queries'),
                 solver_time_s=round(float(r.get('solver_s') or 0), 2), wall_s=round(float(r.get('wall_s') or 0), 1),
                 timeout_s=o.timeout, excluded_known=r.get('excluded') or [],
                 message=(r.get('message') or '')[:240])
        per_ob.append(d)
    distinct = sum(int(r.get('main_paths') if r.get('main_paths') is not None else (r.get('paths') or 0)) for n, r in st.items() if r['status'] in ('confirmed', 'known', 'violation'))
    ev = {
        'property_id': pid, 'tier': tier, 'seed': seed, 'level': LEVEL, 'wall_s': round(wall, 1), 'violations': nviol,
        'coverage': {
            'explanation': (getattr(mod, 'EXPLANATION', '') or '') + ' Verdict rule: an obligation counts as discharged only if '
            'the engine explored every path within the stated bounds (CrossHair "Confirmed over all paths" / solver unsat on '
            'every leaf) AND its reachability twin produced a witness that replays on the real code. Time-outs, solver '
            '"unknown" and unsupported constructs are reported as inconclusive, never as success.',
            'obligations': len(obs), 'discharged': len(confirmed), 'refuted_known_findings': known,
            'refuted_new': viol, 'inconclusive': inconcl, 'errors': errors,
            'paths': paths, 'solver_queries': queries, 'solver_time_s': solver_s,
            'evaluations': paths, 'distinct_nontrivial': distinct,
            'rule': 'evaluations = every symbolic path executed by the engines in this run, including the reachability-twin runs '
                    'and re-runs after excluded counterexamples (each path covers every concrete input that follows it); '
                    'distinct_nontrivial = decision-tree leaves of the LAST property run (postcondition "_") of the obligations '
                    'that reached a definite verdict - twin and retry paths are not counted; leaves are distinct by construction '
                    '(CrossHair never revisits a leaf; E2 leaves have pairwise disjoint path conditions; E3/E4 count candidate '
                    'schedules / macro edges).',
            'functions_encoded': functions,
            'per_obligation': per_ob,
            'samples': samples[:40],
            'checker_cmd': './vcheck %s --tier %s' % (pid, tier),
            'trusted_base': TRUSTED + list(getattr(mod, 'TRUSTED_EXTRA', [])),
            'outside_bounds': sorted({o.outside for o in obs if o.outside}),
            'stubs_and_assumes': sorted({o.stubs for o in obs if o.stubs}) + list(getattr(mod, 'ASSUMES', [])),
            'exhaustive': False,
        },
        'assumptions': list(getattr(mod, 'ASSUMES', [])) + ['bounds listed per obligation; nothing is claimed outside them'],
    }
    os.makedirs(os.path.join(root, 'evidence'), exist_ok=True)
    with open(os.path.join(root, 'evidence', pid + '.json'), 'w') as f:
        json.dump(ev, f, indent=1, sort_keys=True, default=str)
