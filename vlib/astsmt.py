"""E2 - astsmt: a small symbolic executor for a subset of Python, working on the AST that inspect.getsource returns for
the LIVE functions of /repo/src (regenerated on every run).  Concrete operands are computed concretely; symbolic operands
build z3 terms (Int, Real, or Float64 under RNE).  Every symbolic branch asks z3 which sides are feasible; paths are
enumerated by re-execution along recorded decision prefixes, so each leaf carries a satisfiable path condition.

Anything outside the subset raises Unsupported -> the obligation is reported inconclusive, never silently skipped.
"""
import ast
import inspect
import math
import textwrap

import z3


class Unsupported(Exception):
    pass


class SimRaise(Exception):
    """an exception raised by the program under analysis"""

    def __init__(self, cls, msg=''):
        self.cls, self.msg = cls, msg


class _Return(Exception):
    def __init__(self, v):
        self.v = v


class _Break(Exception):
    pass


class _Continue(Exception):
    pass


class Seq:
    """abstract sequence: only its length n (symbolic Int) is observable; lazy => negative indexes raise (SequenceFromIter)"""

    def __init__(self, n, lazy=False, name='sequence'):
        self.n, self.lazy, self.name = n, lazy, name


class Items:
    """concrete-length list of (possibly symbolic) items, iterable and indexable by concrete ints"""


class Obj:
    """bag of attributes (used for `self`)"""

    def __init__(self, **kw):
        self.__dict__.update(kw)


def is_sym(v):
    return isinstance(v, z3.ExprRef)


RNE = z3.RNE()
F64 = z3.Float64()


class State:
    def __init__(self, prefix, ex):
        self.prefix = list(prefix)
        self.decisions = []
        self.pc = []
        self.touches = []        # (seq name, index term | 'len')
        self.alternatives = []
        self.ex = ex
        self.fresh = 0
        self.events = []

    def branch(self, cond):
        if not is_sym(cond):
            return bool(cond)
        cond = z3.simplify(cond)
        if z3.is_true(cond):
            return True
        if z3.is_false(cond):
            return False
        i = len(self.decisions)
        if i < len(self.prefix):
            d = self.prefix[i]
        else:
            ft = self.ex.feasible(self.pc + [cond])
            ff = self.ex.feasible(self.pc + [z3.Not(cond)])
            if ft and ff:
                d = True
                self.alternatives.append(self.decisions + [False])
            elif ft:
                d = True
            elif ff:
                d = False
            else:
                raise Unsupported('both sides infeasible/unknown at a branch')
        self.decisions.append(d)
        self.pc.append(cond if d else z3.Not(cond))
        return d


class Leaf:
    def __init__(self, pc, kind, value, touches, events, env=None):
        self.pc, self.kind, self.value, self.touches, self.events, self.env = pc, kind, value, touches, events, env


class Explorer:
    def __init__(self, timeout_ms=20000, max_paths=5000):
        self.solver = z3.Solver()
        self.solver.set('timeout', timeout_ms)
        self.queries = 0
        self.solver_s = 0.0
        self.max_paths = max_paths
        self.unknowns = 0

    def check(self, assertions):
        import time
        t0 = time.perf_counter()
        self.solver.push()
        self.solver.add(*assertions)
        r = str(self.solver.check())
        m = self.solver.model() if r == 'sat' else None
        self.solver.pop()
        self.queries += 1
        self.solver_s += time.perf_counter() - t0
        if r == 'unknown':
            self.unknowns += 1
        return r, m

    def feasible(self, pc):
        r, _ = self.check(pc)
        if r == 'unknown':
            raise Unsupported('solver answered unknown on a feasibility query')
        return r == 'sat'

    def explore(self, thunk, base_pc=()):
        """thunk(state) runs the program; returns list of Leaf"""
        leaves, work = [], [[]]
        while work:
            if len(leaves) >= self.max_paths:
                raise Unsupported('more than %d paths' % self.max_paths)
            prefix = work.pop()
            st = State(prefix, self)
            st.pc = list(base_pc)
            try:
                v = thunk(st)
                leaf = Leaf(st.pc, 'return', v, st.touches, st.events)
            except SimRaise as e:
                leaf = Leaf(st.pc, 'raise', e.cls, st.touches, st.events)
            leaves.append(leaf)
            work.extend(st.alternatives)
        return leaves


def fn_ast(fn):
    src = textwrap.dedent(inspect.getsource(fn))
    tree = ast.parse(src).body[0]
    return tree


EXC = {n: getattr(__builtins__ if not isinstance(__builtins__, dict) else object, n, None) for n in ()}
_EXC_NAMES = {'Exception': Exception, 'IndexError': IndexError, 'KeyError': KeyError, 'TypeError': TypeError,
              'ValueError': ValueError, 'ZeroDivisionError': ZeroDivisionError, 'AttributeError': AttributeError,
              'LookupError': LookupError, 'ArithmeticError': ArithmeticError}


class Interp:
    """mode: 'int' (only ints symbolic), 'real' (floats are reals), 'fp' (floats are IEEE doubles, RNE)"""

    def __init__(self, globs, mode='int', inline=(), on_call=None):
        self.globs = globs
        self.mode = mode
        self.inline = {f.__name__: f for f in inline}
        self.on_call = on_call or {}

    # ---------------------------------------------------------------- numbers
    def lift(self, v):
        """concrete number -> z3 term of the right sort for mixing with symbolic operands"""
        if is_sym(v):
            return v
        if isinstance(v, bool):
            return z3.BoolVal(v)
        if isinstance(v, int):
            return z3.IntVal(v)
        if isinstance(v, float):
            if self.mode == 'fp':
                return z3.FPVal(v, F64)
            if v != v or v in (float('inf'), float('-inf')):
                raise Unsupported('non-finite float in real mode')
            return z3.RealVal(repr(v))
        raise Unsupported('cannot lift %r' % (v,))

    def coerce(self, a, b):
        a, b = self.lift(a), self.lift(b)
        if z3.is_fp(a) or z3.is_fp(b):
            return self.to_fp(a), self.to_fp(b)
        if z3.is_real(a) or z3.is_real(b):
            return (z3.ToReal(a) if z3.is_int(a) else a), (z3.ToReal(b) if z3.is_int(b) else b)
        return a, b

    def to_fp(self, a):
        if z3.is_fp(a):
            return a
        if z3.is_int(a):
            return z3.fpToFP(RNE, z3.ToReal(a), F64)
        if z3.is_real(a):
            return z3.fpToFP(RNE, a, F64)
        raise Unsupported('to_fp %r' % a)

    def binop(self, op, a, b, st):
        if not is_sym(a) and not is_sym(b):
            try:
                return {ast.Add: lambda: a + b, ast.Sub: lambda: a - b, ast.Mult: lambda: a * b, ast.Div: lambda: a / b,
                        ast.FloorDiv: lambda: a // b, ast.Mod: lambda: a % b}[type(op)]()
            except ZeroDivisionError:
                raise SimRaise(ZeroDivisionError)
            except TypeError:
                raise SimRaise(TypeError)
            except KeyError:
                raise Unsupported('binop %s' % type(op).__name__)
        if isinstance(a, (str, list, tuple, dict)) or isinstance(b, (str, list, tuple, dict)) or a is None or b is None:
            raise SimRaise(TypeError)
        x, y = self.coerce(a, b)
        fp = z3.is_fp(x)
        if isinstance(op, ast.Add):
            return z3.fpAdd(RNE, x, y) if fp else x + y
        if isinstance(op, ast.Sub):
            return z3.fpSub(RNE, x, y) if fp else x - y
        if isinstance(op, ast.Mult):
            return z3.fpMul(RNE, x, y) if fp else x * y
        if isinstance(op, ast.Div):
            if fp:
                if st.branch(z3.fpIsZero(y)):
                    raise SimRaise(ZeroDivisionError)
                return z3.fpDiv(RNE, x, y)
            if st.branch(y == 0):
                raise SimRaise(ZeroDivisionError)
            if z3.is_int(x):
                x, y = z3.ToReal(x), z3.ToReal(y)
                if self.mode == 'fp':
                    return z3.fpDiv(RNE, self.to_fp(x), self.to_fp(y))
            return x / y
        if isinstance(op, ast.FloorDiv):
            if fp:
                if st.branch(z3.fpIsZero(y)):
                    raise SimRaise(ZeroDivisionError)
                return z3.fpRoundToIntegral(z3.RTN(), z3.fpDiv(RNE, x, y))
            if z3.is_int(x) and z3.is_int(y):
                if not is_sym(b) and b > 0:
                    return x / y          # z3 integer division rounds towards -inf for a positive divisor
                raise Unsupported('int // with non-constant or non-positive divisor')
            if not is_sym(b) and b > 0:
                return z3.ToReal(z3.ToInt(x / y))   # floor of a real
            raise Unsupported('real // symbolic')
        if isinstance(op, ast.Mod):
            if z3.is_int(x) and z3.is_int(y) and not is_sym(b) and b > 0:
                return x % y
            raise Unsupported('% on these operands')
        raise Unsupported('binop %s' % type(op).__name__)

    def compare(self, op, a, b):
        if isinstance(op, (ast.Is, ast.IsNot)):
            if is_sym(a) or is_sym(b):
                r = False if (a is None or b is None) else None
                if r is None:
                    raise Unsupported('is on symbolic values')
            else:
                r = a is b
            return r if isinstance(op, ast.Is) else not r
        if isinstance(op, (ast.In, ast.NotIn)):
            if is_sym(a) or is_sym(b):
                raise Unsupported('in on symbolic')
            r = a in b
            return r if isinstance(op, ast.In) else not r
        if not is_sym(a) and not is_sym(b):
            try:
                return {ast.Lt: lambda: a < b, ast.Gt: lambda: a > b, ast.LtE: lambda: a <= b, ast.GtE: lambda: a >= b,
                        ast.Eq: lambda: a == b, ast.NotEq: lambda: a != b}[type(op)]()
            except TypeError:
                raise SimRaise(TypeError)
        if a is None or b is None or isinstance(a, str) or isinstance(b, str):
            if isinstance(op, ast.Eq):
                return False
            if isinstance(op, ast.NotEq):
                return True
            raise SimRaise(TypeError)
        x, y = self.coerce(a, b)
        if z3.is_fp(x):
            return {ast.Lt: z3.fpLT, ast.Gt: z3.fpGT, ast.LtE: z3.fpLEQ, ast.GtE: z3.fpGEQ, ast.Eq: z3.fpEQ,
                    ast.NotEq: lambda p, q: z3.Not(z3.fpEQ(p, q))}[type(op)](x, y)
        return {ast.Lt: lambda: x < y, ast.Gt: lambda: x > y, ast.LtE: lambda: x <= y, ast.GtE: lambda: x >= y,
                ast.Eq: lambda: x == y, ast.NotEq: lambda: x != y}[type(op)]()

    def truth(self, v, st):
        if is_sym(v):
            if z3.is_bool(v):
                return st.branch(v)
            if z3.is_fp(v):
                return st.branch(z3.Not(z3.fpIsZero(v)))
            return st.branch(v != 0)
        return bool(v)

    # ---------------------------------------------------------------- expressions
    def ev(self, node, env, st):
        m = getattr(self, 'ev_' + type(node).__name__, None)
        if m is None:
            raise Unsupported('expression %s' % type(node).__name__)
        return m(node, env, st)

    def ev_Constant(self, node, env, st):
        return node.value

    def ev_Name(self, node, env, st):
        if node.id in env:
            return env[node.id]
        if node.id in self.globs:
            return self.globs[node.id]
        if node.id in _EXC_NAMES:
            return _EXC_NAMES[node.id]
        import builtins
        if hasattr(builtins, node.id):
            return getattr(builtins, node.id)
        raise Unsupported('unbound name %s' % node.id)

    def ev_Tuple(self, node, env, st):
        return tuple(self.ev(e, env, st) for e in node.elts)

    def ev_List(self, node, env, st):
        return [self.ev(e, env, st) for e in node.elts]

    def ev_Dict(self, node, env, st):
        return {self.ev(k, env, st): self.ev(v, env, st) for k, v in zip(node.keys, node.values)}

    def ev_JoinedStr(self, node, env, st):
        out = ''
        for v in node.values:
            if isinstance(v, ast.Constant):
                out += v.value
            else:
                x = self.ev(v.value, env, st)
                if is_sym(x):
                    raise Unsupported('f-string of symbolic')
                out += format(x)
        return out

    def ev_BinOp(self, node, env, st):
        a, b = self.ev(node.left, env, st), self.ev(node.right, env, st)
        if isinstance(node.op, ast.Mod) and isinstance(a, str):
            if is_sym(b) or (isinstance(b, tuple) and any(is_sym(x) for x in b)):
                raise Unsupported('%-format of symbolic')
            return a % b
        return self.binop(node.op, a, b, st)

    def ev_UnaryOp(self, node, env, st):
        v = self.ev(node.operand, env, st)
        if isinstance(node.op, ast.Not):
            if is_sym(v) and z3.is_bool(v):
                return z3.Not(v)
            return not self.truth(v, st)
        if isinstance(node.op, ast.USub):
            if is_sym(v):
                return z3.fpNeg(v) if z3.is_fp(v) else -v
            return -v
        raise Unsupported('unary %s' % type(node.op).__name__)

    def ev_BoolOp(self, node, env, st):
        is_and = isinstance(node.op, ast.And)
        v = None
        for e in node.values:
            v = self.ev(e, env, st)
            t = self.truth(v, st)
            if is_and and not t:
                return v if not is_sym(v) else False
            if not is_and and t:
                return v if not is_sym(v) else True
        return v if not is_sym(v) else (True if is_and else False)

    def ev_Compare(self, node, env, st):
        left = self.ev(node.left, env, st)
        res = None
        for op, c in zip(node.ops, node.comparators):
            r = self.ev(c, env, st)
            t = self.compare(op, left, r)
            if len(node.ops) == 1:
                return t
            if not self.truth(t, st):
                return False
            left = r
        return True

    def ev_IfExp(self, node, env, st):
        return self.ev(node.body if self.truth(self.ev(node.test, env, st), st) else node.orelse, env, st)

    def ev_Attribute(self, node, env, st):
        o = self.ev(node.value, env, st)
        if isinstance(o, Obj):
            if node.attr in o.__dict__:
                return o.__dict__[node.attr]
            raise SimRaise(AttributeError)
        if isinstance(o, (list, dict, str)):
            return ('method', o, node.attr)
        raise Unsupported('attribute %s of %r' % (node.attr, type(o).__name__))

    def index_seq(self, seq, i, st):
        n = seq.n
        i = self.lift(i)
        ok = z3.And(i < n, i >= 0) if seq.lazy else z3.And(i < n, i >= -n)
        st.touches.append((seq.name, i))
        if st.branch(ok):
            return ('item', seq.name, i)
        raise SimRaise(IndexError)

    def ev_Subscript(self, node, env, st):
        o = self.ev(node.value, env, st)
        if isinstance(node.slice, ast.Slice):
            raise Unsupported('slice')
        i = self.ev(node.slice, env, st)
        if isinstance(o, Seq):
            return self.index_seq(o, i, st)
        if is_sym(i):
            raise Unsupported('symbolic index into concrete container')
        try:
            return o[i]
        except IndexError:
            raise SimRaise(IndexError)
        except KeyError:
            raise SimRaise(KeyError)
        except TypeError:
            raise SimRaise(TypeError)

    def ev_Call(self, node, env, st):
        f = node.func
        args = [self.ev(a, env, st) for a in node.args]
        kw = {k.arg: self.ev(k.value, env, st) for k in node.keywords}
        if isinstance(f, ast.Name):
            name = f.id
            if name in self.on_call:
                return self.on_call[name](self, st, *args, **kw)
            if name in self.inline:
                return self.call(self.inline[name], args, st, kw)
            if name == 'len':
                o = args[0]
                if isinstance(o, Seq):
                    st.touches.append((o.name, 'len'))
                    return o.n
                return len(o)
            if name == 'float':
                v = args[0]
                if is_sym(v):
                    if self.mode == 'fp':
                        return self.to_fp(v)
                    return z3.ToReal(v) if z3.is_int(v) else v
                return float(v)
            if name == 'int':
                v = args[0]
                if is_sym(v):
                    if z3.is_int(v):
                        return v
                    raise Unsupported('int() of symbolic non-int')
                return int(v)
            if name == 'sqrt':
                return self.sqrt(args[0], st)
            if name == 'isinstance':
                return self.isinstance_(args[0], args[1])
            if name == 'range':
                if any(is_sym(a) for a in args):
                    raise Unsupported('range over symbolic bounds')
                return list(range(*args))
            if name == 'getattr':
                o = args[0]
                if isinstance(o, Obj):
                    if args[1] in o.__dict__:
                        return o.__dict__[args[1]]
                    if len(args) > 2:
                        return args[2]
                    raise SimRaise(AttributeError)
                raise SimRaise(AttributeError)     # numbers/None have no such attribute
            if name in _EXC_NAMES:
                return ('exc', _EXC_NAMES[name])
            raise Unsupported('call of %s' % name)
        if isinstance(f, ast.Attribute):
            o = self.ev(f.value, env, st)
            if isinstance(o, list):
                if f.attr == 'append':
                    o.append(args[0])
                    return None
                if f.attr == 'sort':
                    return self.sort_list(o, st)
                if f.attr == 'reverse':
                    o.reverse()
                    return None
            if isinstance(o, dict) and f.attr == 'get':
                return o.get(*args)
            if isinstance(o, str) and f.attr == 'format':
                if any(is_sym(a) for a in args):
                    st.events.append(('format', args))
                    return '<formatted>'
                return o.format(*args)
            if isinstance(o, Obj) and f.attr in o.__dict__ and callable(o.__dict__[f.attr]):
                return o.__dict__[f.attr](self, st, *args, **kw)
            raise Unsupported('method %s on %s' % (f.attr, type(o).__name__))
        raise Unsupported('call form')

    def isinstance_(self, v, cls):
        if is_sym(v):
            if z3.is_int(v):
                return cls in (int,) or (isinstance(cls, tuple) and int in cls)
            if z3.is_real(v) or z3.is_fp(v):
                return cls in (float,) or (isinstance(cls, tuple) and float in cls)
            if z3.is_bool(v):
                return cls in (bool, int)
        return isinstance(v, cls)

    def sqrt(self, x, st):
        if not is_sym(x):
            try:
                return math.sqrt(x)
            except ValueError:
                raise SimRaise(ValueError)
            except TypeError:
                raise SimRaise(TypeError)
        if z3.is_fp(x):
            neg = z3.And(z3.fpLT(x, z3.FPVal(0.0, F64)), z3.Not(z3.fpIsNaN(x)))
            st.events.append(('sqrt', x, list(st.pc)))
            if st.branch(neg):
                raise SimRaise(ValueError)
            return z3.fpSqrt(RNE, x)
        xr = z3.ToReal(x) if z3.is_int(x) else x
        st.events.append(('sqrt', xr, list(st.pc)))
        if st.branch(xr < 0):
            raise SimRaise(ValueError)
        st.fresh += 1
        r = z3.Real('sqrt_%d_%d' % (id(st) % 100000, st.fresh))
        st.pc.append(z3.And(r >= 0, r * r == xr))
        return r

    def sort_list(self, lst, st):
        """in-place sort of a short list of symbolic numbers by forking on comparisons (insertion sort)"""
        out = []
        for v in lst:
            pos = len(out)
            for j, w in enumerate(out):
                if self.truth(self.compare(ast.Lt(), v, w), st):
                    pos = j
                    break
            out.insert(pos, v)
        lst[:] = out
        return None

    # ---------------------------------------------------------------- statements
    def call(self, fn, args, st, kw=None):
        tree = fn_ast(fn)
        names = [a.arg for a in tree.args.args]
        env = dict(zip(names, args))
        defaults = tree.args.defaults
        for a, d in zip(names[len(names) - len(defaults):], defaults):
            if a not in env:
                env[a] = self.ev(d, {}, st)
        env.update(kw or {})
        try:
            self.block(tree.body, env, st)
        except _Return as r:
            return r.v
        return None

    def block(self, stmts, env, st):
        for s in stmts:
            self.stmt(s, env, st)

    def assign(self, target, v, env, st):
        if isinstance(target, ast.Name):
            env[target.id] = v
        elif isinstance(target, (ast.Tuple, ast.List)):
            if is_sym(v):
                raise Unsupported('unpack symbolic')
            vs = list(v)
            if len(vs) != len(target.elts):
                raise SimRaise(ValueError)
            for t, x in zip(target.elts, vs):
                self.assign(t, x, env, st)
        elif isinstance(target, ast.Subscript):
            o = self.ev(target.value, env, st)
            k = self.ev(target.slice, env, st)
            if is_sym(k):
                raise Unsupported('symbolic key in store')
            o[k] = v
        elif isinstance(target, ast.Attribute):
            o = self.ev(target.value, env, st)
            if isinstance(o, Obj):
                o.__dict__[target.attr] = v
            else:
                raise Unsupported('attribute store')
        else:
            raise Unsupported('assign target %s' % type(target).__name__)

    def stmt(self, s, env, st):
        if isinstance(s, ast.Assign):
            v = self.ev(s.value, env, st)
            for t in s.targets:
                self.assign(t, v, env, st)
        elif isinstance(s, ast.AugAssign):
            cur = self.ev(s.target, env, st)
            self.assign(s.target, self.binop(s.op, cur, self.ev(s.value, env, st), st), env, st)
        elif isinstance(s, ast.Expr):
            if isinstance(s.value, ast.Constant):
                return
            self.ev(s.value, env, st)
        elif isinstance(s, ast.Return):
            raise _Return(self.ev(s.value, env, st) if s.value is not None else None)
        elif isinstance(s, ast.Pass):
            return
        elif isinstance(s, ast.If):
            self.block(s.body if self.truth(self.ev(s.test, env, st), st) else s.orelse, env, st)
        elif isinstance(s, ast.For):
            it = self.ev(s.iter, env, st)
            if isinstance(it, Seq) or is_sym(it):
                raise Unsupported('for over abstract sequence')
            try:
                for x in list(it):
                    self.assign(s.target, x, env, st)
                    try:
                        self.block(s.body, env, st)
                    except _Continue:
                        continue
                else:
                    self.block(s.orelse, env, st)
            except _Break:
                pass
        elif isinstance(s, ast.While):
            n = 0
            try:
                while self.truth(self.ev(s.test, env, st), st):
                    n += 1
                    if n > 64:
                        raise Unsupported('while loop beyond 64 iterations')
                    try:
                        self.block(s.body, env, st)
                    except _Continue:
                        continue
            except _Break:
                pass
        elif isinstance(s, ast.Break):
            raise _Break()
        elif isinstance(s, ast.Continue):
            raise _Continue()
        elif isinstance(s, ast.Try):
            try:
                try:
                    self.block(s.body, env, st)
                except SimRaise as e:
                    for h in s.handlers:
                        if h.type is None:
                            match = True
                        else:
                            t = self.ev(h.type, env, st)
                            ts = t if isinstance(t, tuple) else (t,)
                            match = any(isinstance(c, type) and issubclass(e.cls, c) for c in ts)
                        if match:
                            if h.name:
                                env[h.name] = e
                            self.block(h.body, env, st)
                            break
                    else:
                        raise
                else:
                    self.block(s.orelse, env, st)
            finally:
                if s.finalbody:
                    self.block(s.finalbody, env, st)
        elif isinstance(s, ast.Raise):
            if s.exc is None:
                raise Unsupported('bare raise')
            v = self.ev(s.exc, env, st)
            if isinstance(v, tuple) and v and v[0] == 'exc':
                raise SimRaise(v[1])
            if isinstance(v, type) and issubclass(v, BaseException):
                raise SimRaise(v)
            raise Unsupported('raise of %r' % (v,))
        else:
            raise Unsupported('statement %s' % type(s).__name__)


def model_value(m, t):
    """concrete python value of term t in model m"""
    v = m.eval(t, model_completion=True)
    if z3.is_int_value(v):
        return v.as_long()
    if z3.is_rational_value(v):
        return float(v.numerator_as_long()) / float(v.denominator_as_long())
    if z3.is_fp(v):
        try:
            import struct
            bv = m.eval(z3.fpToIEEEBV(v), model_completion=True)
            return struct.unpack('<d', struct.pack('<Q', bv.as_long()))[0]
        except Exception:
            return float(str(v))
    if z3.is_true(v):
        return True
    if z3.is_false(v):
        return False
    if z3.is_algebraic_value(v):
        return float(v.approx(20).as_decimal(20).rstrip('?'))
    return str(v)
