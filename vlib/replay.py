"""Concrete replay of one obligation in plain CPython (no CrossHair):  python -m vlib.replay <module> <ob> <args repr>
prints '@@REPLAY@@{"ok": true|false|null, "detail": ..., "functions": [...]}'.
ok=False means: the real code, run normally on these concrete arguments, violates the obligation."""
import ast
import os
import importlib
import json
import sys
import traceback

SRCP = os.environ.get('VERIF_REPO', '/repo').rstrip('/') + '/src/'


def main(argv):
    modname, obname, args_repr = argv[:3]
    after_repr = argv[3] if len(argv) > 3 else None
    out = {'ok': None, 'detail': '', 'functions': []}
    try:
        mod = importlib.import_module(modname)
        ob = next(o for o in mod.OBLIGATIONS if o.name == obname)
        args = ast.literal_eval(args_repr)
        seen = set()

        def prof(frame, event, arg):
            if event == 'call':
                fn = frame.f_code.co_filename
                if fn.startswith(SRCP):
                    seen.add('%s:%s' % (fn[len(SRCP):], frame.f_code.co_qualname))
        if ob.kind == 'crosshair':
            ns = dict(ob.fn.__globals__)
            for e in ob.pre:
                if not eval(e, ns, dict(args)):
                    out.update(ok=True, detail='precondition %r not met by the concrete arguments' % e)
                    break
            else:
                if after_repr:
                    # history replay: an earlier call of the same obligation in this process (what another symbolic path did
                    # before) - its own verdict is irrelevant, only what it leaves behind on shared objects
                    try:
                        ob.fn(**ast.literal_eval(after_repr))
                    except Exception:            # noqa: B902
                        pass
                sys.setprofile(prof)
                try:
                    r = ob.fn(**args)
                    out.update(ok=bool(r), detail='obligation returned %r' % (r,))
                except Exception as e:
                    out.update(ok=False, detail='obligation raised %s: %s' % (type(e).__name__, str(e)[:300]))
                finally:
                    sys.setprofile(None)
                expl = getattr(mod, 'explain', None)
                if out['ok'] is False and expl is not None:
                    try:
                        out['detail'] += ' :: ' + str(expl(obname, args))[:600]
                    except Exception:
                        pass
        else:
            sys.setprofile(prof)
            try:
                r = ob.replay(args)
            finally:
                sys.setprofile(None)
            if isinstance(r, tuple):
                out.update(ok=bool(r[0]), detail=str(r[1])[:800])
            else:
                out.update(ok=bool(r), detail='replay returned %r' % (r,))
        out['functions'] = sorted(seen)
    except BaseException as e:
        out.update(ok=None, detail='%s: %s\n%s' % (type(e).__name__, e, traceback.format_exc()[-800:]))
    sys.stdout.write('\n@@REPLAY@@' + json.dumps(out) + '\n')


if __name__ == '__main__':
    main(sys.argv[1:])
