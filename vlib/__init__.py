"""Shared machinery for the solver-based checks of zopefoundation/DocumentTemplate (see /verif/DESIGN.md)."""
