"""E4 - z3 search for exponential ambiguity (EDA) witnesses in Python regexes.

A backtracking matcher needs exponential time only if the pattern's epsilon-NFA has a state q and a word w with two
DIFFERENT paths q -w-> q (exponential degree of ambiguity).  The pattern is parsed with re._parser (the parser of the
very `re` module that compiled the live pattern object), turned into a Thompson eps-NFA, and z3 is asked for (q, w, two
different macro-edge sequences), |w| <= k, characters ranging over ALL code points.  sat -> a pump word;  unsat for all
lengths <= k -> no exponential pump of length <= k.
"""
import re
import re._constants as C
import re._parser as P
import time

import z3


class Unsupported(Exception):
    pass


class NFA:
    def __init__(self):
        self.n = 0
        self.eps = {}
        self.sym = {}

    def new(self):
        self.n += 1
        return self.n - 1

    def e(self, a, b):
        self.eps.setdefault(a, []).append(b)

    def s(self, a, pred, b, desc):
        self.sym.setdefault(a, []).append((pred, b, desc))


def _cat(cat):
    if cat is C.CATEGORY_DIGIT:
        return lambda x: z3.And(x >= 48, x <= 57)
    if cat is C.CATEGORY_NOT_DIGIT:
        return lambda x: z3.Not(z3.And(x >= 48, x <= 57))
    if cat is C.CATEGORY_SPACE:
        return lambda x: z3.Or(z3.And(x >= 9, x <= 13), x == 32)
    if cat is C.CATEGORY_NOT_SPACE:
        return lambda x: z3.Not(z3.Or(z3.And(x >= 9, x <= 13), x == 32))
    if cat is C.CATEGORY_WORD:
        return lambda x: z3.Or(z3.And(x >= 48, x <= 57), z3.And(x >= 65, x <= 90), z3.And(x >= 97, x <= 122), x == 95)
    if cat is C.CATEGORY_NOT_WORD:
        return lambda x: z3.Not(z3.Or(z3.And(x >= 48, x <= 57), z3.And(x >= 65, x <= 90), z3.And(x >= 97, x <= 122), x == 95))
    raise Unsupported('category %s' % cat)


def charpred(op, arg, flags):
    ic = bool(flags & re.I)

    def lit(c):
        if ic and chr(c).isalpha() and c < 128:
            return lambda x, c=c: z3.Or(x == ord(chr(c).lower()), x == ord(chr(c).upper()))
        return lambda x, c=c: x == c
    if op is C.LITERAL:
        return lit(arg)
    if op is C.NOT_LITERAL:
        return lambda x: z3.Not(lit(arg)(x))
    if op is C.ANY:
        if flags & re.S:
            return lambda x: z3.BoolVal(True)
        return lambda x: x != 10
    if op is C.IN:
        neg = False
        parts = []
        for o, a in arg:
            if o is C.NEGATE:
                neg = True
            elif o is C.LITERAL:
                parts.append(lit(a))
            elif o is C.CATEGORY:
                parts.append(_cat(a))
            elif o is C.RANGE:
                lo, hi = a
                if ic and lo < 128 and chr(lo).isalpha():
                    slo, shi = ord(chr(lo).swapcase()), ord(chr(hi).swapcase())
                    parts.append(lambda x, lo=lo, hi=hi, slo=slo, shi=shi: z3.Or(z3.And(x >= lo, x <= hi), z3.And(x >= slo, x <= shi)))
                else:
                    parts.append(lambda x, lo=lo, hi=hi: z3.And(x >= lo, x <= hi))
            else:
                raise Unsupported('set item %s' % o)

        def f(x):
            return z3.Or(*[p(x) for p in parts]) if parts else z3.BoolVal(False)
        return (lambda x: z3.Not(f(x))) if neg else f
    raise Unsupported('op %s' % op)


def build(nfa, seq, a, flags):
    """append the automaton of a parsed sequence starting at state a; return its end state"""
    for op, arg in seq:
        if op in (C.LITERAL, C.NOT_LITERAL, C.ANY, C.IN):
            b = nfa.new()
            nfa.s(a, charpred(op, arg, flags), b, '%s %s' % (op, arg if op is not C.IN else '[..]'))
            a = b
        elif op is C.SUBPATTERN:
            a = build(nfa, arg[3], a, flags)
        elif op is C.BRANCH:
            end = nfa.new()
            for alt in arg[1]:
                s0 = nfa.new()
                nfa.e(a, s0)
                nfa.e(build(nfa, alt, s0, flags), end)
            a = end
        elif op in (C.MAX_REPEAT, C.MIN_REPEAT):
            lo, hi, sub = arg
            for _ in range(lo):
                a = build(nfa, sub, a, flags)
            if hi is C.MAXREPEAT:
                s0 = nfa.new()
                out = nfa.new()
                nfa.e(a, s0)
                nfa.e(a, out)
                e1 = build(nfa, sub, s0, flags)
                nfa.e(e1, s0)
                nfa.e(e1, out)
                a = out
            else:
                if hi - lo > 64:
                    raise Unsupported('bounded repeat of %d' % (hi - lo))
                out = nfa.new()
                nfa.e(a, out)
                for _ in range(hi - lo):
                    s0 = nfa.new()
                    nfa.e(a, s0)
                    a = build(nfa, sub, s0, flags)
                    nfa.e(a, out)
                a = out
        elif op is C.AT:
            pass   # anchors only remove matches; ignoring them over-approximates ambiguity (sound for "no pump")
        else:
            raise Unsupported('regex construct %s' % op)   # look-around, back references, possessive/atomic groups
    return a


def macro_edges(nfa):
    """all (src, pred, dst, eps-path) with src -eps*(simple path)-> s -symbol-> dst; distinct eps paths stay distinct"""
    out = []
    for src in range(nfa.n):
        stack = [(src, (src,))]
        while stack:
            s, path = stack.pop()
            for pred, t, desc in nfa.sym.get(s, []):
                out.append((src, pred, t, path))
            for t in nfa.eps.get(s, []):
                if t not in path:
                    stack.append((t, path + (t,)))
    return out


def eda(pattern, flags=0, kmax=4, timeout_ms=60000):
    """-> dict(eda: True/False/None, pump, states, edges, queries, solver_s)"""
    nfa = NFA()
    start = nfa.new()
    build(nfa, P.parse(pattern, flags), start, flags)
    edges = macro_edges(nfa)
    post = sorted({e[2] for e in edges})
    edges = [e for e in edges if e[0] in post]          # a pumpable loop runs between post-symbol states
    res = {'states': nfa.n, 'edges': len(edges), 'queries': 0, 'solver_s': 0.0, 'kmax': kmax}
    for L in range(1, kmax + 1):
        if not edges:
            break
        s = z3.Solver()
        s.set('timeout', timeout_ms)
        w = [z3.Int('w%d' % i) for i in range(L)]
        A = [z3.Int('a%d' % i) for i in range(L)]
        B = [z3.Int('b%d' % i) for i in range(L)]
        q = z3.Int('q')
        for x in w:
            s.add(x >= 0, x <= 0x10FFFF)

        def chain(E):
            for i, ei in enumerate(E):
                s.add(ei >= 0, ei < len(edges))
                for j, (src, pred, dst, _) in enumerate(edges):
                    s.add(z3.Implies(ei == j, pred(w[i])))
                    if i == 0:
                        s.add(z3.Implies(ei == j, q == src))
                    if i == L - 1:
                        s.add(z3.Implies(ei == j, q == dst))
                    if i + 1 < L:
                        nxt = [E[i + 1] == j2 for j2, e2 in enumerate(edges) if e2[0] == dst]
                        s.add(z3.Implies(ei == j, z3.Or(*nxt) if nxt else z3.BoolVal(False)))
        chain(A)
        chain(B)
        s.add(z3.Or(*[a != b for a, b in zip(A, B)]))
        t0 = time.perf_counter()
        r = str(s.check())
        res['solver_s'] += time.perf_counter() - t0
        res['queries'] += 1
        if r == 'sat':
            m = s.model()
            res.update(eda=True, pump=''.join(chr(m.eval(x, model_completion=True).as_long()) for x in w), pump_len=L)
            return res
        if r != 'unsat':
            res.update(eda=None, reason='z3 answered %s at pump length %d' % (r, L))
            return res
    res.update(eda=False)
    return res


def selftest():
    """the encoder must find the textbook pump and must not flag the polynomial textbook case"""
    a = eda('(a+)+', 0, 3)
    b = eda('a*a*', 0, 3)
    c = eda('([^"]+("[^"]*")?)*', 0, 3)
    return a['eda'] is True and b['eda'] is False and c['eda'] is True


def time_pump(rx_call, prefix, pump, suffix, ns=None, stop_s=3.0):
    """replay: time the real compiled pattern on prefix + pump*n + suffix for growing n; stops once a call takes > stop_s"""
    ts = []
    for n in (ns or range(2, 60, 2)):
        text = prefix + pump * n + suffix
        t0 = time.perf_counter()
        rx_call(text)
        dt = time.perf_counter() - t0
        ts.append((n, dt))
        if dt > stop_s:
            break
    return ts


def blows_up(ts, step=2, pump_len=1):
    """exponential iff the time keeps multiplying by a constant factor per step once it is measurable"""
    meas = [(n, t) for n, t in ts if t > 0.002]
    if len(meas) < 3 or meas[-1][1] < 0.3:
        return False
    ratios = [meas[i + 1][1] / meas[i][1] for i in range(len(meas) - 1)]
    return min(ratios[-2:]) >= 1.6
