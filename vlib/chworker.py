"""Worker: discharge ONE obligation in its own process and print a JSON result on the last stdout line.

usage: python -m vlib.chworker <harness module> <obligation name> [--exclude <expr>]... [--timeout-scale f]

E1 obligations are handed to CrossHair (symbolic execution of the real /repo/src code, z3 back end) through its
library API: the harness function is the body, the bounds are PRECONDITION expressions, the property is the
POSTCONDITION ``_`` (the function returns True).  A second run with postcondition ``False`` is the reachability twin:
it must be refuted, and its counterexample is a solver-generated witness that satisfies the bounds and reaches the end.
"""
import collections
import importlib
import inspect
import json
import re
import sys
import time
import traceback


def _instrument_z3(counter):
    import z3
    orig = z3.Solver.check

    def check(self, *a, **k):
        t0 = time.perf_counter()
        try:
            return orig(self, *a, **k)
        finally:
            counter['queries'] += 1
            counter['solver_s'] += time.perf_counter() - t0
    z3.Solver.check = check


def _patch_relib():
    """CrossHair 0.0.110's relib.unicode_ignorecase_mask compiles chr(cp) unescaped under re.I and crashes on a
    literal '(' (hit by String.tagre).  Same function with re.escape; listed in the trusted base."""
    import re as _re

    import crosshair.libimpl.relib as relib
    from crosshair.libimpl.relib import CharMask, caseable_chars

    def unicode_ignorecase_mask(cp):
        mask = relib._UNICODE_IGNORECASE_MASKS.get(cp)
        if mask is None:
            matches = _re.compile(_re.escape(chr(cp)), _re.IGNORECASE).findall(caseable_chars())
            mask = CharMask([ord(c) for c in matches] or [cp])
            relib._UNICODE_IGNORECASE_MASKS[cp] = mask
        return mask
    relib.unicode_ignorecase_mask = unicode_ignorecase_mask


CALL_RE = re.compile(r'when calling (.*?)(?: \(which (?:returns|raises).*\))?$', re.S)


def parse_call(message, fn):
    """Turn CrossHair's 'false when calling ob(1, "x")' into a dict argname -> concrete value."""
    m = CALL_RE.search(message)
    if not m:
        return None
    expr = m.group(1).strip()

    def capture(*a, **k):
        return a, k
    env = {fn.__name__: capture, 'nan': float('nan'), 'inf': float('inf')}
    env.update({k: v for k, v in fn.__globals__.items() if k not in env and not k.startswith('__')})
    env[fn.__name__] = capture
    try:
        a, k = eval(expr, env)
        bound = inspect.signature(fn).bind(*a, **k)
        bound.apply_defaults()
        return dict(bound.arguments)
    except Exception:
        return None


def run_crosshair(ob, extra_pre, scale):
    from dataclasses import replace
    import crosshair.core_and_libs  # noqa: F401  (registers opcode patches and library models)
    from crosshair.condition_parser import POSTCONDITION, PRECONDITION, Conditions, condition_from_source_text
    from crosshair.core import DEFAULT_OPTIONS, ConditionCheckable, run_checkables
    from crosshair.fnutil import FunctionInfo
    from crosshair.options import AnalysisOptionSet
    from crosshair.statespace import MessageType

    counter = collections.Counter()
    _instrument_z3(counter)
    fn = ob.fn
    ns = dict(fn.__globals__)
    fname = inspect.getsourcefile(fn) or '<harness>'
    line = fn.__code__.co_firstlineno
    pres = list(ob.pre) + ['not (%s)' % e for e in extra_pre]
    pre = [condition_from_source_text(PRECONDITION, fname, line, e, ns) for e in pres]
    sig = inspect.signature(fn)
    finfo = FunctionInfo.from_fn(fn)
    timeout = ob.timeout * scale
    out = {'pre': pres}

    def analyse(post_expr, cond_timeout):
        stats = collections.Counter()
        opts = DEFAULT_OPTIONS.overlay(AnalysisOptionSet(
            per_condition_timeout=cond_timeout,
            per_path_timeout=ob.path_timeout or max(10.0, cond_timeout / 3.0),
            max_uninteresting_iterations=10 ** 9, report_all=True, stats=stats))
        if ob.iters:
            opts = opts.overlay(AnalysisOptionSet(max_iterations=ob.iters))
        post = [condition_from_source_text(POSTCONDITION, fname, line, post_expr, ns)]
        conds = Conditions(fn, fn, pre, post, frozenset(), sig, None, [])
        msgs = list(run_checkables([ConditionCheckable(finfo, opts, replace(conds, post=post))]))
        return msgs, stats

    t0 = time.time()
    msgs, stats = analyse('_', timeout)
    out['wall_s'] = round(time.time() - t0, 2)
    out['paths'] = int(stats.get('num_paths', 0))
    out['main_paths'] = out['paths']
    status, message, cex = 'inconclusive', 'no message from CrossHair', None
    for m in msgs:
        st = m.state
        if st == MessageType.CONFIRMED:
            status, message = 'confirmed', m.message
        elif st in (MessageType.POST_FAIL, MessageType.EXEC_ERR, MessageType.POST_ERR):
            cex = parse_call(m.message, fn)
            if cex is None:
                status, message = 'inconclusive', 'counterexample not parseable: ' + m.message[:300]
            else:
                status, message = 'refuted', m.message[:500]
            break
        elif st == MessageType.PRE_UNSAT:
            status, message = 'inconclusive', 'vacuous or all paths aborted: ' + m.message
        else:
            status, message = 'inconclusive', '%s: %s' % (st.name, m.message[:300])
    out.update(status=status, message=message)
    if cex is not None:
        out['cex'] = repr(cex)
    # reachability twin
    if ob.twin and status == 'confirmed':
        t1 = time.time()
        tmsgs, tstats = analyse('False', min(timeout, 60 * scale))
        witness = None
        for m in tmsgs:
            if m.state == MessageType.POST_FAIL:
                witness = parse_call(m.message, fn)
                break
        out['twin_wall_s'] = round(time.time() - t1, 2)
        out['paths'] += int(tstats.get('num_paths', 0))
        if witness is None:
            out['status'] = 'inconclusive'
            out['message'] = 'reachability twin not refuted (vacuous or unreachable): ' + \
                '; '.join('%s %s' % (m.state.name, m.message[:120]) for m in tmsgs)
        else:
            out['witness'] = repr(witness)
    out['queries'] = int(counter['queries'])
    out['solver_s'] = round(counter['solver_s'], 3)
    return out


def main(argv):
    modname, obname = argv[0], argv[1]
    extra, scale = [], 1.0
    i = 2
    while i < len(argv):
        if argv[i] == '--exclude':
            extra.append(argv[i + 1]); i += 2
        elif argv[i] == '--timeout-scale':
            scale = float(argv[i + 1]); i += 2
        else:
            i += 1
    t0 = time.time()
    try:
        mod = importlib.import_module(modname)
        ob = next(o for o in mod.OBLIGATIONS if o.name == obname)
        if ob.kind == 'crosshair':
            if 'relib-escape' in (ob.stubs or ''):
                _patch_relib()
            res = run_crosshair(ob, extra, scale)
        else:
            res = ob.fn(extra) if ob.fn.__code__.co_argcount else ob.fn()
            if 'cex' in res and not isinstance(res['cex'], str):
                res['cex'] = repr(res['cex'])
    except BaseException as e:  # infrastructure error, reported as such (never a verdict)
        res = {'status': 'error', 'message': '%s: %s' % (type(e).__name__, e), 'trace': traceback.format_exc()[-2000:]}
    res['name'] = obname
    res.setdefault('wall_s', round(time.time() - t0, 2))
    res['total_s'] = round(time.time() - t0, 2)
    sys.stdout.write('\n@@RESULT@@' + json.dumps(res) + '\n')
    sys.stdout.flush()


if __name__ == '__main__':
    main(sys.argv[1:])
