"""E3 - schedsmt: SMT synthesis of thread schedules over recorded shared-memory traces, replayed on real threads.

1. The objects shared between concurrent renders of one template - the template instance and every compiled tag object
   reachable from its block list - get their __class__ swapped (in the harness, not in /repo) for a generated subclass whose
   __getattribute__/__setattr__ log (thread, R|W, object label, attribute, value token); dict/list attributes of tag objects
   are wrapped so that item writes are logged too; COOKLOCK is wrapped so acquire/release are logged.
2. Every thread body is run ALONE on a fresh instance of the scenario -> solo trace and solo result.
3. z3: one integer position per event; program order; lock mutual exclusion; "a read returns the last preceding write to its
   location".  Query: is there a total order in which SOME read observes a value written by ANOTHER thread that differs from
   what the read saw solo?   unsat  =>  under sequential consistency at shared-access granularity every thread re-executes its
   solo trace under EVERY interleaving (any number of pre-emptions) of these traces.
4. sat => the schedule is replayed on real threads, each gated at its logging hooks; only a replay in which some thread's
   result differs from its solo result is a violation.  A candidate that replays without a visible difference is benign: it is
   blocked and the solver is asked again (bounded).
"""
import threading
import time

import z3


class Recorder:
    def __init__(self):
        self.mode = 'off'
        self.events = {}            # thread name -> list of events
        self.order = None
        self.pos = 0
        self.cv = threading.Condition()
        self.slot_timeout = 1.0
        self.skipped = 0

    def start_record(self):
        self.mode = 'record'
        self.events = {}

    def hit(self, kind, label, attr, value, action):
        """kind R/W/ACQ/REL; action() performs the access (inside the scheduler's critical section when replaying)"""
        name = threading.current_thread().name
        if self.mode == 'record':
            r = action()
            self.events.setdefault(name, []).append((kind, label, attr, value if kind != 'R' else token(r)))
            return r
        if self.mode == 'replay' and name in self.tracked:
            with self.cv:
                deadline = time.time() + self.slot_timeout
                while self.pos < len(self.order) and self.order[self.pos] != name:
                    left = deadline - time.time()
                    if left <= 0:
                        # the awaited thread diverged from its recorded trace (or finished): give up this slot
                        self.pos += 1
                        self.skipped += 1
                        self.cv.notify_all()
                        deadline = time.time() + self.slot_timeout
                        continue
                    self.cv.wait(timeout=left)
                try:
                    return action()
                finally:
                    if self.pos < len(self.order):
                        self.pos += 1
                    self.cv.notify_all()
        return action()

    def thread_done(self):
        """a finished thread gives away all its remaining slots"""
        name = threading.current_thread().name
        with self.cv:
            self.order = [o if o != name else None for o in self.order] if self.order else self.order
            while self.pos < len(self.order or []) and self.order[self.pos] is None:
                self.pos += 1
            self.cv.notify_all()


REC = Recorder()


class _Missing:
    def __repr__(self):
        return '<missing>'


_MISSINGV = _Missing()
_MISSING = ('missing',)


def token(v, depth=0):
    """value token: equal tokens = 'the same value' for the purposes of conflict detection"""
    if v is _MISSINGV:
        return _MISSING
    if isinstance(v, (str, int, float, bool, bytes, type(None))):
        return (type(v).__name__, v)
    if isinstance(v, (list, tuple)):
        if depth >= 2:
            return (type(v).__name__, len(v))
        return (type(v).__name__, len(v), tuple(token(x, depth + 1) for x in v[:8]))
    if isinstance(v, dict):
        if depth >= 2:
            return ('dict', len(v))
        return ('dict', tuple(sorted((str(k), token(x, depth + 1)) for k, x in list(v.items())[:12])))
    if hasattr(v, 'co_code'):
        return ('code', hash((v.co_code, v.co_consts if all(isinstance(c, (str, int, type(None), tuple)) for c in v.co_consts) else len(v.co_consts))))
    if hasattr(v, '__self__') and hasattr(v, '__func__'):
        return ('method', v.__func__.__qualname__, getattr(v.__self__, '_schedsmt_label', type(v.__self__).__name__))
    lab = getattr(v, '_schedsmt_label', None) if not isinstance(v, type) else None
    if lab is not None:
        return ('shared', lab)
    if isinstance(v, type) or callable(v) and hasattr(v, '__qualname__'):
        return ('callable', getattr(v, '__qualname__', repr(v)))
    return ('obj', type(v).__name__, id(v))


# list attributes that are per-object state (not compiled program): namespace stacks, caches, scratch lists
LOGGED_LIST_ATTRS = ('_data', '_stack', '_cache', 'cache', 'stack', 'scratch', '_scratch', 'pending', '_pending', 'results', '_results')


class LogDict(dict):
    _label = '?'

    def __setitem__(self, k, v):
        REC.hit('W', self._label, 'item:%s' % (k,), token(v), lambda: dict.__setitem__(self, k, v))

    def __getitem__(self, k):
        return REC.hit('R', self._label, 'item:%s' % (k,), None, lambda: dict.__getitem__(self, k))


class LogList(list):
    """list held in an attribute of a shared object: in-place mutations are W events on that attribute's location (the value token is
    the content after the mutation), so that a namespace stack or cache list shared between renders is seen by the schedule synthesis"""
    _label = '?'
    _attr = '?'

    def _w(self, fn, *a):
        box = {}

        def act():
            box['r'] = fn(self, *a)
        # token after the mutation: computed on a copy so that the event carries the new content
        tmp = list(self)
        try:
            fn(tmp, *a)
        except Exception:
            pass
        REC.hit('W', self._label, self._attr, token(tmp), act)
        return box.get('r')

    def append(self, x):
        return self._w(list.append, x)

    def pop(self, *a):
        return self._w(list.pop, *a)

    def extend(self, xs):
        return self._w(list.extend, list(xs))

    def insert(self, i, x):
        return self._w(list.insert, i, x)

    def remove(self, x):
        return self._w(list.remove, x)

    def clear(self):
        return self._w(list.clear)

    def __setitem__(self, i, x):
        return self._w(list.__setitem__, i, x)

    def __delitem__(self, i):
        return self._w(list.__delitem__, i)


SHARED_DICTS = {}       # id(dict) -> (label, dict) for dicts held in attributes of shared objects (the reference keeps the id unique)


def _patch_templatedict():
    """TemplateDict keeps its attributes (guards, this, validate ...) in self._dict.  If that dict is one that a SHARED object holds,
    the namespace's attribute reads / writes are shared accesses: log them (class-level patch, harness side only)"""
    from DocumentTemplate._DocumentTemplate import TemplateDict
    if getattr(TemplateDict, '_schedsmt_patched', False):
        return
    orig_set, orig_get = TemplateDict.__setattr__, TemplateDict.__getattribute__

    def sa(self, name, value):
        if name not in ('level', '_data', '_dict'):
            d = object.__getattribute__(self, '__dict__').get('_dict')
            ent = SHARED_DICTS.get(id(d)) if d is not None else None
            if ent is not None and ent[1] is d:
                return REC.hit('W', ent[0], 'item:%s' % name, token(value), lambda: orig_set(self, name, value))
        return orig_set(self, name, value)

    def ga(self, name):
        if name not in ('level', '_data', '_dict') and not name.startswith('__'):
            d = object.__getattribute__(self, '__dict__').get('_dict')
            if d and name in d:
                ent = SHARED_DICTS.get(id(d))
                if ent is not None and ent[1] is d:
                    return REC.hit('R', ent[0], 'item:%s' % name, None, lambda: orig_get(self, name))
        return orig_get(self, name)
    try:
        TemplateDict.__setattr__ = sa
        TemplateDict.__getattribute__ = ga
        TemplateDict._schedsmt_patched = True
    except (TypeError, AttributeError):
        pass


def instrument(obj, label):
    cls = type(obj)
    if cls.__name__.startswith('Obs_'):
        return
    for a, v in list(getattr(obj, '__dict__', {}).items()):
        if type(v) is dict and a in ('args',):
            ld = LogDict(v)
            ld._label = label + '.' + a
            obj.__dict__[a] = ld
        elif type(v) is list and a in LOGGED_LIST_ATTRS:
            ll = LogList(v)
            ll._label, ll._attr = label, a
            obj.__dict__[a] = ll

    def ga(self, name, _c=cls):
        if name.startswith('__') or name == '_schedsmt_label':
            return _c.__getattribute__(self, name)
        d = object.__getattribute__(self, '__dict__')
        if name in d or name.startswith('_v_'):
            def act():
                try:
                    return _c.__getattribute__(self, name)
                except AttributeError:
                    return _MISSINGV
            r = REC.hit('R', label, name, None, act)
            if r is _MISSINGV:
                raise AttributeError(name)
            if type(r) is dict:
                SHARED_DICTS[id(r)] = (label + '.' + name, r)
            return r
        return _c.__getattribute__(self, name)

    def sa(self, name, value, _c=cls):
        if type(value) is dict and not name.startswith('__'):
            # a dict stored on a shared object at run time (a lazily built cache, a guards table) keeps its identity; namespaces that
            # adopt it as their attribute store (TemplateDict._dict) log their attribute accesses against it
            SHARED_DICTS[id(value)] = (label + '.' + name, value)
        REC.hit('W', label, name, token(value), lambda: _c.__setattr__(self, name, value))

    try:
        # object.__setattr__: classes with their own __setattr__ (TemplateDict) would swallow the assignment
        object.__setattr__(obj, '__class__', type('Obs_' + cls.__name__, (cls,), {'__getattribute__': ga, '__setattr__': sa, '_schedsmt_label': label}))
    except TypeError:
        pass


class IOProxy:
    """stands in for a module-level io.StringIO / io.BytesIO object (a per-process scratch buffer shared by all threads):
    mutating calls are W events, reading calls R events on the location (label, 'content')"""
    _W = ('write', 'writelines', 'truncate', 'seek')
    _R = ('getvalue', 'read', 'readline', 'readlines', 'tell')

    def __init__(self, real, label):
        object.__setattr__(self, '_real', real)
        object.__setattr__(self, '_schedsmt_label', label)

    def __getattr__(self, name):
        real = object.__getattribute__(self, '_real')
        label = object.__getattribute__(self, '_schedsmt_label')
        attr = getattr(real, name)
        if name in IOProxy._W:
            def w(*a, **k):
                return REC.hit('W', label, 'content', (name, token(a)), lambda: attr(*a, **k))
            return w
        if name in IOProxy._R:
            def r(*a, **k):
                return REC.hit('R', label, 'content', None, lambda: attr(*a, **k))
            return r
        return attr


def instrument_module_buffers(prefixes=('DocumentTemplate', 'TreeDisplay')):
    """module-level io buffers of the code under test are shared by every thread: wrap them (none exist on the pinned tree)"""
    import io
    import sys
    n = 0
    for mname, mod in list(sys.modules.items()):
        if mod is None or not mname.startswith(prefixes):
            continue
        for name, val in list(vars(mod).items()):
            if isinstance(val, (io.StringIO, io.BytesIO)):
                setattr(mod, name, IOProxy(val, '%s.%s' % (mname, name)))
                n += 1
    return n


class LogLock:
    """wraps DT_String.COOKLOCK: acquire/release become events; acquisition happens inside the scheduler slot"""

    def __init__(self, lock):
        self.lock = lock

    def __enter__(self):
        REC.hit('ACQ', 'COOKLOCK', '', None, lambda: self.lock.acquire(timeout=5))
        return self

    def __exit__(self, *a):
        REC.hit('REL', 'COOKLOCK', '', None, lambda: self.lock.release())
        return False

    def acquire(self, *a, **k):
        return REC.hit('ACQ', 'COOKLOCK', '', None, lambda: self.lock.acquire(timeout=5))

    def release(self):
        return REC.hit('REL', 'COOKLOCK', '', None, lambda: self.lock.release())


def shared_objects(template, cook_subs=True):
    """the template and every compiled tag object reachable from its block list"""
    out, seen = [], set()

    def add(o):
        if id(o) in seen or isinstance(o, (str, bytes, int, float, type(None), type)):
            return
        seen.add(id(o))
        out.append(o)
        if cook_subs and o is not template and hasattr(o, 'cook') and hasattr(o, 'raw') and '_v_blocks' not in getattr(o, '__dict__', {}):
            o.cook()            # a sub-template held in the defaults: its tag objects are shared as well
        d = getattr(o, '__dict__', {})
        for a, v in list(d.items()):
            visit(v)

    def visit(v):
        if isinstance(v, (list, tuple)):
            for x in v:
                visit(x)
        elif isinstance(v, dict):
            for x in v.values():
                visit(x)
        elif hasattr(v, '__self__') and hasattr(v, '__func__'):
            add(v.__self__)
        elif hasattr(v, '__dict__') and not isinstance(v, type) and type(v).__module__.split('.')[0] in ('DocumentTemplate', 'TreeDisplay', 'harness'):
            add(v)
    add(template)
    return out


def instrument_template(template, cooked):
    SHARED_DICTS.clear()
    _patch_templatedict()
    if cooked:
        template.cook()
    objs = shared_objects(template, cooked)
    # helper objects handed out by the template's own factory methods are shared iff the SAME object comes back twice
    for fname in ('tagre',):
        try:
            a, b = getattr(template, fname)(), getattr(template, fname)()
        except Exception:
            continue
        if a is b and hasattr(a, '__dict__'):
            objs.append(a)
    counts = {}
    for o in objs:
        nm = type(o).__name__
        counts[nm] = counts.get(nm, 0) + 1
        instrument(o, '%s#%d' % (nm, counts[nm]))
    return len(objs)


def _warm(t, inputs, call):
    """steady state: every thread body once, alone, unrecorded (lazily built shared structures exist afterwards)"""
    REC.mode = 'off'
    for ns in inputs.values():
        try:
            call(t, ns)
        except Exception:            # noqa: B902
            pass


def run_solo(make_template, inputs, cooked, call, warm=False):
    """each thread body alone on a fresh scenario instance -> ({name: trace}, {name: result})"""
    traces, solo = {}, {}
    for name, ns in inputs.items():
        t = make_template()
        instrument_template(t, cooked)
        if warm:
            _warm(t, inputs, call)
        REC.tracked = set(inputs)
        REC.start_record()
        box = {}

        def body():
            try:
                box['r'] = ('ok', call(t, ns))
            except Exception as e:
                box['r'] = ('exc', type(e).__name__, str(e)[:100])
        th = threading.Thread(target=body, name=name)
        th.start()
        th.join()
        REC.mode = 'off'
        traces[name] = list(REC.events.get(name, []))
        solo[name] = box.get('r')
    return traces, solo


def synthesize(traces, blocked, timeout_ms=60000, only_loc=None, final_differs=None):
    """-> ('sat', order, witness) | ('unsat', None, None) | ('unknown', ...)"""
    ev = [(tid, i) + e for tid, tr in traces.items() for i, e in enumerate(tr)]
    if not ev:
        return 'unsat', None, None, 0
    P = {(e[0], e[1]): z3.Int('p_%s_%d' % (e[0], e[1])) for e in ev}
    s = z3.Solver()
    s.set('timeout', timeout_ms)
    s.add(z3.Distinct(*P.values()))
    for p in P.values():
        s.add(p >= 0, p < len(ev))
    for tid, tr in traces.items():
        for i in range(len(tr) - 1):
            s.add(P[(tid, i)] < P[(tid, i + 1)])
    # lock mutual exclusion: critical sections [ACQ, REL] of different threads do not overlap
    secs = []
    for tid, tr in traces.items():
        stack = []
        for i, e in enumerate(tr):
            if e[0] == 'ACQ':
                stack.append(i)
            elif e[0] == 'REL' and stack:
                secs.append((tid, stack.pop(), i))
    for a in secs:
        for b in secs:
            if a[0] < b[0]:
                s.add(z3.Or(P[(a[0], a[2])] < P[(b[0], b[1])], P[(b[0], b[2])] < P[(a[0], a[1])]))
    writes = {}
    for e in ev:
        if e[2] == 'W':
            writes.setdefault(e[3:5], []).append(e)

    def pos(e):
        return P[(e[0], e[1])]

    def reads_from(r, w):
        return z3.And(pos(w) < pos(r), *[z3.Or(pos(o) < pos(w), pos(o) > pos(r)) for o in writes.get(r[3:5], []) if o is not w])

    cons = {}

    def consistent(r):
        """read r observes the value it saw solo: from a same-valued write, or from the initial state if its solo value did"""
        k = (r[0], r[1])
        if k not in cons:
            ws = writes.get(r[3:5], [])
            alts = [reads_from(r, w) for w in ws if w[5] == r[5]]
            own_before = any(w[0] == r[0] and w[1] < r[1] for w in ws)
            if not own_before:
                alts.append(z3.And(*[pos(w) > pos(r) for w in ws]))      # nothing written yet: initial value, as in the solo run
            cons[k] = z3.Or(*alts) if alts else z3.BoolVal(False)
        return cons[k]

    def prefix_ok(e):
        """every earlier read of e's thread is consistent with its solo run (so the thread really reaches e)"""
        return z3.And(*[consistent(x) for x in ev if x[0] == e[0] and x[1] < e[1] and x[2] == 'R'])

    cands = []
    for r in ev:
        if r[2] != 'R':
            continue
        for w in ev:
            if w[2] == 'W' and w[0] != r[0] and w[3:5] == r[3:5] and w[5] != r[5]:
                key = (r[0], r[1], w[0], w[1])
                if key in blocked:
                    continue
                if only_loc is not None and tuple(r[3:5]) != tuple(only_loc):
                    continue
                cond = z3.And(reads_from(r, w), prefix_ok(r), prefix_ok(w))
                cands.append((key, cond, r, w))
    if not cands:
        return 'unsat', None, None, 0
    if final_differs is not None:
        # amplification: the thread that performs the foreign read also performs the LAST write to that location (what it writes
        # back was computed from the foreign value: a counter restored by value, a saved-and-restored flag ...)
        kept = []
        for key, cond, r, w in cands:
            later = [x for x in writes.get(r[3:5], []) if x[0] == r[0] and x[1] > r[1]]
            if not later:
                continue
            last = max(later, key=lambda x: x[1])
            others = [o for o in writes.get(r[3:5], []) if o[0] != r[0]]
            kept.append((key, z3.And(cond, *[pos(last) > pos(o) for o in others]), r, w))
        cands = kept
        if not cands:
            return 'unsat', None, None, 0
    sel = [z3.Bool('c%d' % i) for i in range(len(cands))]
    for b, (key, cond, r, w) in zip(sel, cands):
        s.add(z3.Implies(b, cond))
    s.add(z3.Or(*sel))
    r = str(s.check())
    if r != 'sat':
        return r, None, None, len(cands)
    m = s.model()
    order = [k[0] for k in sorted(P, key=lambda k: m[P[k]].as_long())]
    hit = [c for b, c in zip(sel, cands) if z3.is_true(m.eval(b))]
    return 'sat', order, hit[0], len(cands)


def replay(make_template, inputs, cooked, call, order, template=None, warm=False):
    t = template
    if t is None:
        t = make_template()
        instrument_template(t, cooked)
        if warm:
            _warm(t, inputs, call)
    REC.tracked = set(inputs)
    REC.order = list(order)
    REC.pos = 0
    REC.skipped = 0
    REC.mode = 'replay'
    got = {}

    def body(name, ns):
        try:
            got[name] = ('ok', call(t, ns))
        except Exception as e:
            got[name] = ('exc', type(e).__name__, str(e)[:100])
        finally:
            REC.thread_done()
    ths = [threading.Thread(target=body, args=(n, a), name=n) for n, a in inputs.items()]
    for th in ths:
        th.start()
    for th in ths:
        th.join(timeout=60)
    REC.mode = 'off'
    return got


def _solo_on(t, inputs, call, record):
    """run every thread body alone, one after the other, on the GIVEN (instrumented) template -> (traces, results)"""
    traces, res = {}, {}
    for name, ns in inputs.items():
        REC.tracked = set(inputs)
        if record:
            REC.start_record()
        box = {}

        def body():
            try:
                box['r'] = ('ok', call(t, ns))
            except Exception as e:
                box['r'] = ('exc', type(e).__name__, str(e)[:100])
        th = threading.Thread(target=body, name=name)
        th.start()
        th.join()
        REC.mode = 'off'
        traces[name] = list(REC.events.get(name, [])) if record else []
        res[name] = box.get('r')
    return traces, res


def amplify(make_template, inputs, cooked, call, loc, rounds=260):
    """A race on location `loc` whose single replay shows no difference may still corrupt the shared object a little each time
    (a counter restored by value, a cache entry leaked).  Deterministic amplification: warm a fresh template (every thread once,
    alone), record the steady-state solo traces on it, let the solver synthesise an interleaving that exhibits the same race on
    those traces, and replay that schedule `rounds` times on the SAME object.  -> (round, differs) of the first round whose thread
    results differ from the steady-state solo results, or (None, None)."""
    t = make_template()
    instrument_template(t, cooked)
    _solo_on(t, inputs, call, False)                      # warm-up (lazy compilation etc.)
    traces, solo = _solo_on(t, inputs, call, True)        # steady-state traces and results
    _t2, solo2 = _solo_on(t, inputs, call, False)
    if solo2 != solo or any(len(tr) == 0 for tr in traces.values()):
        return None, None, 0
    init = None
    for tr in traces.values():
        for e in tr:
            if e[0] == 'R' and tuple(e[1:3]) == tuple(loc):
                init = e[3]
                break
        if init is not None:
            break
    r, order, hit, ncand = synthesize(traces, set(), only_loc=loc, final_differs=(loc, init))
    if r != 'sat':
        return None, None, 0
    old_timeout = REC.slot_timeout
    REC.slot_timeout = 0.2
    try:
        for i in range(1, rounds + 1):
            got = replay(make_template, inputs, cooked, call, order, template=t)
            differs = {k: (solo[k], got.get(k)) for k in solo if got.get(k) != solo[k]}
            if differs:
                return i, differs, i
    finally:
        REC.slot_timeout = old_timeout
    return None, None, rounds


def analyse(make_template, inputs, cooked, call, max_candidates=32):
    """cold phase (fresh template: compile races, lazily built structures being created), then - if that is clean - the steady-state
    phase (template rendered once by every thread body beforehand: structures that exist only after a first render are shared now)"""
    r = analyse_phase(make_template, inputs, cooked, call, max_candidates, warm=False)
    if r.get('verdict') != 'unsat' or not cooked:
        return r
    r2 = analyse_phase(make_template, inputs, cooked, call, max_candidates, warm=True)
    if r2.get('verdict') == 'unsat':
        r['message'] += '; steady state: ' + r2.get('message', '')
        for k in ('queries', 'solver_s', 'candidates'):
            r[k] = r.get(k, 0) + r2.get(k, 0)
        r['benign'] = r.get('benign', []) + r2.get('benign', [])
        return r
    r2['warm'] = True
    return r2


def analyse_phase(make_template, inputs, cooked, call, max_candidates=32, warm=False):
    """full E3 pipeline for one scenario and one phase -> result dict"""
    t0 = time.time()
    traces, solo = run_solo(make_template, inputs, cooked, call, warm)
    # state OUTSIDE the template object (module-level caches, memoised helpers): every thread body runs alone on a FRESH template,
    # so its result must not depend on which other render happened earlier in this process
    rev = dict(reversed(list(inputs.items())))
    _tr2, solo2 = run_solo(make_template, rev, cooked, call, warm)
    _tr3, solo3 = run_solo(make_template, inputs, cooked, call, warm)
    od = {k: (solo[k], solo2.get(k), solo3.get(k)) for k in solo if solo2.get(k) != solo[k] or solo3.get(k) != solo[k]}
    if od:
        return {'events': sum(len(t) for t in traces.values()), 'writes': 0, 'solo': {k: repr(v)[:80] for k, v in solo.items()}, 'queries': 0, 'solver_s': 0.0, 'benign': [],
                'candidates': 0, 'verdict': 'violation', 'schedule': [], 'order_dependence': True,
                'message': 'the result of a render on a fresh template object depends on which renders ran before it in this process (state shared outside the template)',
                'differs': {k: tuple(repr(x)[:100] for x in v) for k, v in od.items()}, 'wall_s': round(time.time() - t0, 2)}
    nev = sum(len(t) for t in traces.values())
    nwr = sum(1 for t in traces.values() for e in t if e[0] == 'W')
    out = {'events': nev, 'writes': nwr, 'solo': {k: repr(v)[:80] for k, v in solo.items()}, 'queries': 0, 'solver_s': 0.0,
           'benign': [], 'candidates': 0}
    if any(len(t) == 0 for t in traces.values()):
        out.update(verdict='vacuous', message='a solo trace contains no shared event')
        return out
    blocked = set()
    amplified = set()
    for attempt in range(max_candidates + 1):
        ts = time.time()
        r, order, hit, ncand = synthesize(traces, blocked)
        out['queries'] += 1
        out['solver_s'] += time.time() - ts
        out['candidates'] = max(out['candidates'], ncand)
        if r == 'unsat':
            out.update(verdict='unsat', message='no interleaving lets a read observe a foreign, different value '
                       '(%d events, %d writes, %d benign candidate(s) replayed without visible difference)' % (nev, nwr, len(out['benign'])))
            break
        if r != 'sat':
            out.update(verdict='unknown', message='z3 answered %s' % r)
            break
        key, cond, rd, wr = hit
        got = replay(make_template, inputs, cooked, call, order, warm=warm)
        differs = {k: (solo[k], got.get(k)) for k in solo if got.get(k) != solo[k]}
        desc = '%s reads %s.%s after %s wrote %r (solo value %r)' % (rd[0], rd[3], rd[4], wr[0], wr[5], rd[5])
        if differs:
            out.update(verdict='violation', message=desc, schedule=order, differs={k: (repr(a)[:120], repr(b)[:120]) for k, (a, b) in differs.items()},
                       skipped_slots=REC.skipped)
            break
        # no visible difference in one replay: does the race corrupt the shared object cumulatively?
        loc = tuple(rd[3:5])
        if loc not in amplified and len(amplified) < 6:
            amplified.add(loc)
            rnd, adiff, done = amplify(make_template, inputs, cooked, call, loc)
            out['amplified'] = out.get('amplified', 0) + done
            if rnd is not None:
                out.update(verdict='violation', message='%s; repeated %d times on one template object the thread results change' % (desc, rnd),
                           schedule=order, amplify={'loc': list(loc), 'rounds': rnd},
                           differs={k: (repr(a)[:120], repr(b)[:120]) for k, (a, b) in adiff.items()}, skipped_slots=REC.skipped)
                break
        out['benign'].append(desc)
        blocked.add(key)
    else:
        out.update(verdict='unknown', message='more than %d benign candidates' % max_candidates)
    out['wall_s'] = round(time.time() - t0, 2)
    return out
