#!/bin/sh
# Build the overlay venv used by every check: /venv's packages + crosshair-tool/z3/cvc5 from the offline wheelhouse.
# Idempotent; safe to call concurrently (flock).
set -e
cd "$(dirname "$0")"
exec 9>.venv.lock
flock 9
if [ -x .venv/bin/python ] && .venv/bin/python -c "import crosshair, z3, DocumentTemplate" 2>/dev/null; then
  exit 0
fi
rm -rf .venv
/venv/bin/python -m venv .venv
SP=$(.venv/bin/python -c "import sysconfig; print(sysconfig.get_paths()['purelib'])")
printf "import site; site.addsitedir('/venv/lib/python3.12/site-packages')\n" > "$SP/zz_venv_overlay.pth"
PIP_NO_INDEX=1 .venv/bin/pip install -q --no-index --find-links /opt/veriftools/wheels crosshair-tool z3-solver cvc5 >/dev/null
.venv/bin/python -c "import crosshair, z3, DocumentTemplate; print('verif venv ok', DocumentTemplate.__file__)"
