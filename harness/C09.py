"""C09 - if/elif/else/unless render the first true branch, lazily, evaluating each named condition once (engine E1)."""
from vlib.ob import Ob, tier
from harness.common import HTML, String, cooked

EXPLANATION = ('CrossHair runs real renders of if/elif/else/unless/call templates whose conditions are logging callables with '
               'symbolic truth values and symbolic definedness; an independent oracle predicts the output AND the exact ordered '
               'call log (left-to-right up to the first true condition, nothing after it, each named condition called once even '
               'when the chosen body re-references it at nesting depth 0-2).')


class Cond:
    """namespace value: a callable with an observable side effect; never raises KeyError(<a name>)"""

    def __init__(self, log, tag, val):
        self.log, self.tag, self.val = log, tag, val

    def __call__(self):
        self.log.append(self.tag)
        return self.val


def body(i, kind, depth):
    ref = '<dtml-var c%d>' % i if kind == 'n' else 'x'
    b = 'B%d(%s)' % (i, ref)
    if depth >= 1:
        b += '<dtml-if one>{%s}</dtml-if><dtml-in two>(%s)</dtml-in>' % (ref, ref)
    if depth >= 2:
        inner = ('<dtml-if c%d>[%s]</dtml-if>' % (i, ref)) if kind == 'n' else '[x]'
        b += '<dtml-with w mapping><dtml-unless zero>%s</dtml-unless></dtml-with>' % inner
    return b


def build(kinds, has_else, depth, syntax='dtml'):
    parts = []
    for i, k in enumerate(kinds, 1):
        tag = 'if' if i == 1 else 'elif'
        cond = 'c%d' % i if k == 'n' else 'expr="f%d()"' % i
        parts.append('<dtml-%s %s>' % (tag, cond) + body(i, k, depth))
    if has_else:
        parts.append('<dtml-else>E')
    parts.append('</dtml-if>')
    src = 'pre|' + ''.join(parts) + '|post'
    if syntax == 'ssi':
        src = src.replace('<dtml-', '<!--#').replace('</dtml-', '<!--#/').replace('>', '-->')
    return src


def oracle(kinds, has_else, depth, bs, ds):
    """-> (output, call log)"""
    log, out = [], 'pre|'
    chosen = None
    for i, k in enumerate(kinds, 1):
        b, d = bs[i - 1], ds[i - 1]
        if k == 'n':
            if not d:
                continue
            log.append('c%d' % i)
        else:
            log.append('f%d' % i)
        if b:
            chosen = i
            break
    if chosen is not None:
        k = kinds[chosen - 1]
        ref = 'v%d' % chosen if k == 'n' else 'x'
        out += 'B%d(%s)' % (chosen, ref)
        if depth >= 1:
            out += '{%s}' % ref + '(%s)(%s)' % (ref, ref)
        if depth >= 2:
            out += '[%s]' % ref
    elif has_else:
        out += 'E'
    return out + '|post', log


SHAPES = []
for n in range(1, 6):
    SHAPES.append(('n' * n, True, 0))
SHAPES += [('n', False, 0), ('nn', False, 1), ('nnn', True, 1), ('nnn', True, 2), ('nn', False, 2),
           ('eee', True, 0), ('nene', True, 1), ('enenn', False, 0), ('ne', True, 2), ('e', False, 0),
           ('nnnnn', False, 1)]
TEMPL = {}
for kinds, he, depth in SHAPES:
    for syn in ('dtml', 'ssi'):
        if syn == 'ssi' and depth == 2:
            continue
        key = '%s_%s%d_%s' % (kinds, 'e' if he else 'x', depth, syn)
        TEMPL[key] = (kinds, he, depth, cooked(build(kinds, he, depth, syn)))


def make(key):
    kinds, he, depth, t = TEMPL[key]
    n = len(kinds)

    def ob(b1: bool, b2: bool, b3: bool, b4: bool, b5: bool, d1: bool, d2: bool, d3: bool, d4: bool, d5: bool) -> bool:
        bs = [b1, b2, b3, b4, b5][:n]
        ds = [d1, d2, d3, d4, d5][:n]
        log = []
        ns = {'one': 1, 'two': [1, 2], 'w': {'q': 1}, 'zero': 0}
        for i in range(1, n + 1):
            b, d = bs[i - 1], ds[i - 1]
            if kinds[i - 1] == 'n':
                if d:
                    ns['c%d' % i] = Cond(log, 'c%d' % i, 'v%d' % i if b else '')
            else:
                ns['f%d' % i] = Cond(log, 'f%d' % i, b)
        try:
            out = t(**ns)
        except Exception:
            return False
        eo, elog = oracle(kinds, he, depth, bs, ds)
        return out == eo and log == elog
    ob.__name__ = 'ob_chain_' + key
    return ob, n


T_UNLESS = cooked('a<dtml-unless c1>U<dtml-var c1></dtml-unless>|<dtml-unless expr="f2()">V</dtml-unless>z')
T_CALL = cooked('a<dtml-call c1>|<dtml-call expr="f2()">|<dtml-call "f2()">z')
T_EPFS = cooked('a%(if c1)[T%(c1)s%(else)[F%(if c1)]|%(unless c2)[U%(unless c2)]|%(call c3)!z', String)


class Falsy:
    def __bool__(self):
        return False

    def __str__(self):
        return 'fz'


def ob_unless(b1: bool, b2: bool) -> bool:
    log = []
    out = T_UNLESS(f2=Cond(log, 'f2', b2), c1=Cond(log, 'c1', 'v' if b1 else Falsy()))
    e = 'a' + ('' if b1 else 'Ufz') + '|' + ('' if b2 else 'V') + 'z'
    return out == e and log == ['c1', 'f2']


T_UNLESS2 = cooked('a<dtml-unless c1>U</dtml-unless>z')


def ob_unless_undef(b1: bool, d1: bool) -> bool:
    log = []
    ns = {}
    if d1:
        ns['c1'] = Cond(log, 'c1', b1)
    out = T_UNLESS2(**ns)
    return out == ('az' if (d1 and b1) else 'aUz') and log == (['c1'] if d1 else [])


def ob_call(b1: bool, b2: bool) -> bool:
    log = []
    out = T_CALL(c1=Cond(log, 'c1', b1), f2=Cond(log, 'f2', b2))
    return out == 'a||z' and log == ['c1', 'f2', 'f2']


def ob_epfs(b1: bool, d1: bool, b2: bool, b3: bool) -> bool:
    log = []
    ns = {'c2': Cond(log, 'c2', b2), 'c3': Cond(log, 'c3', b3)}
    if d1:
        ns['c1'] = Cond(log, 'c1', 'v' if b1 else '')
    out = T_EPFS(**ns)
    e = 'a' + ('Tv' if (d1 and b1) else 'F') + '|' + ('' if b2 else 'U') + '|z'
    return out == e and log == (['c1'] if d1 else []) + ['c2', 'c3']


T_NONE = cooked('<dtml-if c1>T<dtml-else>E(<dtml-var c1 null="nul">)(<dtml-var c1 null="nul">)</dtml-if>|<dtml-unless c1>U(<dtml-var c1 null="nul">)</dtml-unless>'
                '|<dtml-if c1>T<dtml-elif c2>V<dtml-var c1 null="nul"></dtml-if>')


def ob_falsy_kinds_cached(kind: int, b2: bool) -> bool:
    """a named condition is evaluated once per conditional whatever falsy value it returns (None, '', 0, [], ()) and that
    value is what references in the chosen body see"""
    if kind == 0:
        v, txt = None, 'nul'
    elif kind == 1:
        v, txt = '', 'nul'
    elif kind == 2:
        v, txt = 0, '0'
    elif kind == 3:
        v, txt = [], 'nul'
    else:
        v, txt = (), 'nul'
    log = []
    out = T_NONE(c1=Cond(log, 'c1', v), c2=Cond(log, 'c2', b2))
    want = 'E(%s)(%s)|U(%s)|%s' % (txt, txt, txt, ('V' + txt) if b2 else '')
    return out == want and log == ['c1', 'c1', 'c1', 'c2']


T_UNDEF = cooked('<dtml-if nope>T<dtml-else>E[<dtml-var nope missing="M">][<dtml-var "_.has_key(\'nope\')">]</dtml-if>'
                 '|<dtml-unless nope>U[<dtml-var nope missing="M">]</dtml-unless>|<dtml-if nope>T<dtml-elif c2>V[<dtml-var nope missing="M">]</dtml-if>')


def ob_undefined_stays_undefined(b2: bool) -> bool:
    """a condition name that is not defined counts as false and is still undefined inside the conditional's bodies"""
    log = []
    out = T_UNDEF(c2=Cond(log, 'c2', b2))
    return out == 'E[M][False]|U[M]|' + ('V[M]' if b2 else '') and log == ['c2']


T_REPEAT = cooked('<dtml-if c1>A<dtml-elif c2>B<dtml-elif c1>C<dtml-elif c2>D<dtml-else>E<dtml-var c1 null="">'
                  '</dtml-if>|<dtml-if c1>A<dtml-elif c2>B<dtml-else c1>N</dtml-if>|<!--#if c2-->X<!--#elif c1-->Y<!--#else c2-->Z<!--#/if-->')


def ob_repeated_names(b1: bool, b2: bool) -> bool:
    """each named condition is evaluated at most once per conditional even when the chain names it again; an else tag may
    repeat the if variable (old spelling) after elif tags"""
    log = []
    out = T_REPEAT(c1=Cond(log, 'c1', 'v' if b1 else ''), c2=Cond(log, 'c2', 'w' if b2 else ''))
    first = 'A' if b1 else ('B' if b2 else 'E')
    second = 'A' if b1 else ('B' if b2 else 'N')
    third = 'X' if b2 else ('Y' if b1 else 'Z')
    elog = ['c1'] + ([] if b1 else ['c2'])          # first conditional
    elog += ['c1'] + ([] if b1 else ['c2'])         # second
    elog += ['c2'] + ([] if b2 else ['c1'])         # third
    return out == first + '|' + second + '|' + third and log == elog


class Boom(Exception):
    pass


def ob_foreign_keyerror(b1: bool) -> bool:
    """a KeyError for a DIFFERENT name raised while evaluating a named condition is not mistaken for 'undefined'"""
    class Bad:
        def __call__(self):
            raise KeyError('other')
    t = TEMPL['n_e0_dtml'][3]
    try:
        t(c1=Bad())
    except KeyError:
        return True
    return False


OBLIGATIONS = []
for _key in TEMPL:
    _fn, _n = make(_key)
    _pre = []
    # unused arguments are pinned so they do not multiply paths
    for i in range(_n + 1, 6):
        _pre += ['not b%d' % i, 'not d%d' % i]
    OBLIGATIONS.append(Ob('chain_' + _key, _fn, _pre, timeout=tier(100, 300),
                          data='truth value b_i and definedness d_i of each of the %d conditions (symbolic bools)' % _n,
                          selectors='chain %r (n = name, e = expr), else=%s, body re-reference depth %d, syntax %s' % (
                              TEMPL[_key][0], TEMPL[_key][1], TEMPL[_key][2], _key.rsplit('_', 1)[1]),
                          outside='chains longer than 5; conditions whose value is itself callable'))
OBLIGATIONS += [
    Ob('unless', ob_unless, [], timeout=60, data='b1,b2 bools', selectors='unless by name and by expr'),
    Ob('unless_undefined', ob_unless_undef, [], timeout=60, data='b1,d1', selectors='unless with undefined name'),
    Ob('call_once', ob_call, [], timeout=60, data='b1,b2', selectors='dtml-call by name / expr= / "..."'),
    Ob('epfs_if_unless_call', ob_epfs, [], timeout=60, data='b1,d1,b2,b3', selectors='EPFS if/else, unless, call', stubs='relib-escape'),
    Ob('falsy_kinds_cached', ob_falsy_kinds_cached, ['0 <= kind <= 4'], timeout=100, data='kind of falsy value, b2', selectors='if/else, unless, elif bodies re-referencing the condition'),
    Ob('undefined_stays_undefined', ob_undefined_stays_undefined, [], timeout=100, data='b2', selectors='undefined condition name referenced inside else / unless / elif bodies'),
    Ob('repeated_names_once', ob_repeated_names, [], timeout=100, data='b1, b2', selectors='chains naming a condition twice; else repeating the if variable after elif; SSI spelling'),
    Ob('foreign_keyerror_propagates', ob_foreign_keyerror, [], timeout=60, data='-', selectors='KeyError(other name) from a condition'),
]
ASSUMES = ['namespace stubs never raise KeyError(<name being looked up>): render_blocks_ reads that as "undefined" by design']


# ---------------------------------------------------------------- wave 3
class Seq:
    """callable whose successive calls return successive truth values (an expression with a side effect, e.g. jobs.pop())"""

    def __init__(self, vals):
        self.vals, self.n = vals, 0

    def __call__(self):
        v = self.vals[self.n] if self.n < len(self.vals) else False
        self.n += 1
        return v


T_SAME_EXPR = cooked('<dtml-if "f()">A<dtml-elif "f()">B<dtml-elif "f()">C<dtml-else>D</dtml-if>|<dtml-if expr="g()">a<dtml-elif expr="g()">b</dtml-if>')
T_SAME_EXPR_S = cooked('%(if "f()")[A%(elif "f()")[B%(elif "f()")[C%(else)[D%(if)]', String)
T_EXPR_THEN_NAME = cooked('<dtml-if "count">A<dtml-elif count>B<dtml-else>C</dtml-if>|<dtml-if count>A<dtml-elif "count">B<dtml-else>C</dtml-if>')


class FalseButCallable:
    """an object that is false as a value but whose call result has a symbolic truth value"""

    def __init__(self, r):
        self.r, self.n = r, 0

    def __bool__(self):
        return False

    def __call__(self):
        self.n += 1
        return self.r


def ob_same_expression_text(t1: bool, t2: bool, t3: bool, u1: bool, u2: bool, epfs: bool) -> bool:
    """every elif condition is evaluated in its turn even if its TEXT equals an earlier condition's: expressions are not cached"""
    f, g = Seq([t1, t2, t3]), Seq([u1, u2])
    if epfs:
        out = T_SAME_EXPR_S(f=f)
        exp2 = ''
    else:
        out = T_SAME_EXPR(f=f, g=g)
        exp2 = '|' + ('a' if u1 else 'b' if u2 else '')
        if g.n != (1 if u1 else 2):
            return False
    exp = 'A' if t1 else 'B' if t2 else 'C' if t3 else 'D'
    return out == exp + exp2 and f.n == (1 if t1 else 2 if t2 else 3)


def ob_expr_then_name(r: bool) -> bool:
    """an expression condition "count" (the object itself, uncalled: false) followed by the NAME count (called): different
    conditions although spelled alike"""
    c = FalseButCallable(r)
    out = T_EXPR_THEN_NAME(count=c)
    # first chain: "count" is false (uncalled), elif count calls it; second chain: name first (called, cached), then the
    # expression sees the cached value of the name
    return out == ('B' if r else 'C') + '|' + ('A' if r else 'C') and c.n == 2


T_LEAK = {
    'body_raises': cooked('<dtml-try><dtml-if a>x<dtml-var boom></dtml-if><dtml-except>H</dtml-try>|<dtml-if a>Y<dtml-else>N</dtml-if>|<dtml-var a>'),
    'cond_raises': cooked('<dtml-try><dtml-if a>x<dtml-elif boom>y</dtml-if><dtml-except>H</dtml-try>|<dtml-if a>Y<dtml-else>N</dtml-if>|<dtml-var a>'),
    'unless_raises': cooked('<dtml-try><dtml-unless a>x<dtml-var boom></dtml-unless><dtml-except>H</dtml-try>|<dtml-if a>Y<dtml-else>N</dtml-if>|<dtml-var a>'),
    'let_around': cooked('<dtml-try><dtml-let q=one><dtml-if a>x<dtml-var boom></dtml-if></dtml-let><dtml-except>H</dtml-try>|<dtml-if q>Q<dtml-else>noq</dtml-if>|<dtml-if a>Y<dtml-else>N</dtml-if>'),
}
T_LEAK_SUB = HTML('<dtml-if a>s<dtml-return one></dtml-if>t')
T_LEAK_SUB.cook()
T_LEAK_CALLER = cooked('<dtml-var sub>|<dtml-if a>Y<dtml-else>N</dtml-if>|<dtml-var a>')


class Flip:
    """truth value v1 at the first call, v2 afterwards; counts calls"""

    def __init__(self, v1, v2):
        self.v1, self.v2, self.n = v1, v2, 0

    def __call__(self):
        self.n += 1
        return ('T' if self.v1 else '') if self.n == 1 else ('T2' if self.v2 else '')


def boom():
    raise ValueError('boom')


def make_leak(key):
    def ob(v1: bool, v2: bool) -> bool:
        """the value cached for a conditional dies with that conditional - also when an exception (or dtml-return in a
        sub-template) leaves it: a later conditional on the same name evaluates it again"""
        a = Flip(v1, v2)
        if key == 'sub':
            out = T_LEAK_CALLER(a=a, sub=T_LEAK_SUB, one=1)
            first = '1' if v1 else 't'
            return out == first + '|' + ('Y' if v2 else 'N') + '|' + ('T2' if v2 else '') and a.n == 3
        out = T_LEAK[key](a=a, boom=boom, one=1)
        if key == 'let_around':
            first = 'H' if v1 else ''
            return out == first + '|noq|' + ('Y' if v2 else 'N') and a.n == 2
        if key == 'unless_raises':
            first = '' if v1 else 'H'
        elif key == 'cond_raises':
            first = 'x' if v1 else 'H'
        else:
            first = 'H' if v1 else ''
        return out == first + '|' + ('Y' if v2 else 'N') + '|' + ('T2' if v2 else '') and a.n == 3
    ob.__name__ = 'ob_cache_dies_' + key
    return ob


OBLIGATIONS.append(Ob('same_expression_text', ob_same_expression_text, [], timeout=100, data='truth values of three successive evaluations of f(), two of g(); syntax bit',
                      selectors='if/elif chains whose expression conditions have identical text (side-effecting expression)', stubs='relib-escape'))
OBLIGATIONS.append(Ob('expression_then_name', ob_expr_then_name, [], timeout=100, data='truth value of the call result',
                      selectors='"count" (expression) and count (name) in one chain, value false as an object but callable'))
for _k in list(T_LEAK) + ['sub']:
    OBLIGATIONS.append(Ob('cache_dies_' + _k, make_leak(_k), [], timeout=100, data='truth value at the first and at later evaluations of the named condition',
                          selectors='conditional left by an exception (caught by a surrounding dtml-try) / by dtml-return in a sub-template; the same name tested again afterwards'))


# ---------------------------------------------------------------- wave 4
T_SIB = cooked('<dtml-call bump><dtml-call bump>|<dtml-if flag>on<dtml-else>off</dtml-if><dtml-call toggle><dtml-if flag>on<dtml-else>off</dtml-if>'
               '<dtml-unless flag>U</dtml-unless>|<dtml-if bump>b</dtml-if><dtml-if bump>b</dtml-if><dtml-in two><dtml-if bump>c</dtml-if></dtml-in>')
T_CALL_UNDEF = {
    'dtml': cooked('a<dtml-call nosuch>b<dtml-call name="nosuch">c<dtml-in two><dtml-call hook></dtml-in>d'),
    'ssi': cooked('a<!--#call nosuch-->b<!--#call name="nosuch"-->c<!--#in two--><!--#call hook--><!--#/in-->d'),
    'epfs': cooked('a%(call nosuch)!b%(call name="nosuch")!c%(in two)[%(call hook)!%(in two)]d', String),
}


class Box:
    def __init__(self, v):
        self.v, self.n = v, 0


def ob_siblings(v0: bool, flip: bool) -> bool:
    """what one conditional looked up dies with it: conditionals side by side (same nesting level, same block list, loop iterations)
    each evaluate the name again and see its CURRENT value"""
    box = Box(v0)
    calls = []

    def bump():
        calls.append(1)
        return len(calls)

    def flag():
        return 'T' if box.v else ''

    def toggle():
        if flip:
            box.v = not box.v
        return ''
    out = T_SIB(bump=bump, flag=flag, toggle=toggle, two=[1, 2])
    after = (not v0) if flip else v0
    exp = '|' + ('on' if v0 else 'off') + ('on' if after else 'off') + ('' if after else 'U') + '|bbcc'
    return out == exp and len(calls) == 6


def ob_call_undefined(hook: bool, syn: int) -> bool:
    """dtml-call on a name that is not defined evaluates nothing and emits nothing (an undefined name counts as false), in all syntaxes"""
    key = 'dtml' if syn == 0 else 'ssi' if syn == 1 else 'epfs'
    seen = []
    ns = {'two': [1, 2]}
    if hook:
        ns['hook'] = lambda: seen.append(1) or 'ignored'
    out = T_CALL_UNDEF[key](**ns)
    return out == 'abcd' and len(seen) == (2 if hook else 0)


OBLIGATIONS.append(Ob('sibling_conditionals', ob_siblings, [], timeout=100, data='initial truth value; whether a call between two conditionals flips it',
                      selectors='call / if / unless side by side on one level and in loop iterations, naming the same callable'))
OBLIGATIONS.append(Ob('call_undefined_name', ob_call_undefined, ['0 <= syn <= 2'], timeout=100, data='whether the optional hook is defined; syntax', selectors='dtml-call on undefined / optional names', stubs='relib-escape'))
