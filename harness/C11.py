"""C11 - batch windows stay in range, tile the sequence and link consistently (E2 unbounded ints + E1 bounded renders)."""
import ast
import itertools
import time

import z3

from DocumentTemplate import DT_In, DT_InSV
from vlib import astsmt
from vlib.astsmt import Explorer, Interp, Seq, Unsupported, fn_ast, model_value
from vlib.ob import Ob, tier
from harness.common import HTML, cooked

EXPLANATION = (
    'E2: the window computation is lifted from the AST of the live code - DT_InSV.opt inlined into the statements of '
    'InClass.renderwb between the opt(...) call and "first = start - 1", and the two opt(...) call expressions renderwb uses for '
    'the previous/next batch - and executed symbolically over unbounded mathematical integers with the sequence abstracted to '
    'its length (list and lazy index semantics). Theorems T1-T5 are discharged per leaf by z3 (unsat = holds for ALL integers on '
    'that path). E1: CrossHair renders real batched dtml-in templates with start/end/size/orphan/overlap passed through variables '
    '(symbolic ints) and compares displayed elements and previous-/next-sequence variables with an independent window oracle.')

RENDERWB = DT_In.InClass.renderwb


# ------------------------------------------------------------------ E2: lifting
def lifted():
    """statements of renderwb from `... = opt(...)` to `first = start - 1`, and the prev/next opt(...) call expressions"""
    tree = fn_ast(RENDERWB)
    body = tree.body
    i0 = i1 = None
    for i, s in enumerate(body):
        if isinstance(s, ast.Assign) and isinstance(s.value, ast.Call) and getattr(s.value.func, 'id', None) == 'opt' and i0 is None:
            i0 = i
        if isinstance(s, ast.Assign) and isinstance(s.targets[0], ast.Name) and s.targets[0].id == 'first' and i0 is not None:
            i1 = i
            break
    if i0 is None or i1 is None:
        raise Unsupported('cannot locate the window statements in renderwb')
    stmts = body[i0:i1 + 1]
    prev_call = next_call = None
    for node in ast.walk(ast.Module(body=body[i1 + 1:], type_ignores=[])):
        if isinstance(node, ast.Call) and getattr(node.func, 'id', None) == 'opt':
            a0, a1 = node.args[0], node.args[1]
            if isinstance(a0, ast.Constant) and a0.value == 0 and prev_call is None:
                prev_call = node
            if isinstance(a1, ast.Constant) and a1.value == 0 and next_call is None:
                next_call = node
    if prev_call is None or next_call is None:
        raise Unsupported('cannot locate the previous/next opt(...) calls in renderwb')
    return stmts, prev_call, next_call


V = dict(start=z3.Int('start'), end=z3.Int('end'), size=z3.Int('size'), orphan=z3.Int('orphan'),
         overlap=z3.Int('overlap'), n=z3.Int('n'))
DOMAIN = [V['n'] >= 1, V['orphan'] >= 0, V['overlap'] >= 0]


def run_window(interp, st, vals, lazy, want):
    stmts, prev_call, next_call = lifted()
    env = dict(start=vals['start'], end=vals['end'], size=vals['size'], orphan=vals['orphan'], overlap=vals['overlap'],
               sequence=Seq(vals['n'], lazy), params={}, next=0, previous=0)
    interp.block(stmts, env, st)
    out = {'s': env['start'], 'e': env['end'], 'z': env['sz'], 'first': env['first'], 'last': env['last']}
    if want == 'next':
        out['nx'] = interp.ev(next_call, env, st)
    if want == 'prev':
        out['pv'] = interp.ev(prev_call, env, st)
    return out


def leaves_for(ex, lazy, want, extra_pc=()):
    interp = Interp(DT_In.__dict__, mode='int', inline=[DT_InSV.opt])
    return ex.explore(lambda st: run_window(interp, st, V, lazy, want), base_pc=DOMAIN + list(extra_pc))


def I(x):
    return x if astsmt.is_sym(x) else z3.IntVal(x)


def theorem(name, o):
    """-> (assumption, claim) as z3 formulas over inputs V and lifted outputs o"""
    s, e, z, n = I(o['s']), I(o['e']), I(o['z']), V['n']
    st, en, orp, ov = V['start'], V['end'], V['orphan'], V['overlap']
    if name == 'T1_range':
        return z3.BoolVal(True), z3.And(1 <= s, s <= e, e <= n)
    if name == 'T2_orphan_rule':
        e0 = s + z - 1
        return z3.And(en <= 0, V['size'] >= 1), z3.And(z == V['size'], e == z3.If(n - e0 >= orp, e0, n),
                                                       s == z3.If(st > 0, z3.If(st > n, n, st), 1))
    if name == 'T2b_explicit_end':
        return z3.And(st > 0, en > 0), z3.And(s == z3.If(st > n, n, st),
                                               e == z3.If(en < s, s, z3.If(en > n, n, en)))
    if name == 'T3_next_link':
        ns, ne = I(o['nx'][0]), I(o['nx'][1])
        return z3.And(e < n, ov < z, en <= 0), z3.And(ns == e + 1 - ov, 1 <= ns, ns <= ne, ne <= n)
    if name == 'T4_progress':
        ns, ne = I(o['nx'][0]), I(o['nx'][1])
        return z3.And(e < n, ov < z, en <= 0), z3.And(ne > e, ns <= e + 1, ns > s)
    if name == 'T3_prev_link':
        ps, pe = I(o['pv'][0]), I(o['pv'][1])
        return z3.And(s > 1, ov < z), z3.And(pe == z3.If(s - 1 + ov > n, n, s - 1 + ov), 1 <= ps, ps <= pe)
    if name == 'T5_prev_progress':
        ps, pe = I(o['pv'][0]), I(o['pv'][1])
        return z3.And(s > 1, ov < z), z3.And(ps < s, ps >= 1)
    raise KeyError(name)


WANT = {'T1_range': None, 'T2_orphan_rule': None, 'T2b_explicit_end': None, 'T3_next_link': 'next', 'T4_progress': 'next',
        'T3_prev_link': 'prev', 'T5_prev_progress': 'prev'}


def concrete_window(vals, lazy, want=None):
    """translator validation: the same lifted statements executed on concrete ints"""
    ex = Explorer()
    interp = Interp(DT_In.__dict__, mode='int', inline=[DT_InSV.opt])
    cv = dict(vals)
    return ex.explore(lambda st: run_window(interp, st, cv, lazy, want))[0]


def validate_translator():
    """the repo's own test_opt vectors + a grid, real opt vs. astsmt in concrete mode; returns number of vectors"""
    seq52 = list(range(52))
    vectors = [(1, 20, 10, 1, 20), (1, 20, 0, 1, 20), (0, 20, 10, 1, 20), (1, 0, 10, 1, 20), (80, 90, 10, 1, 52),
               (1, 80, 10, 1, 52), (0, 80, 10, 1, 52), (10, 1, 10, 1, 52), (0, 0, 10, 1, 52), (0, 0, 0, 0, 52), (5, 0, 3, 2, 9)]
    vectors += list(itertools.product((-1, 0, 1, 3, 9), (-1, 0, 2, 5, 9), (-1, 0, 1, 4), (0, 2), (1, 4, 7)))
    ex = Explorer()
    interp = Interp(DT_In.__dict__, mode='int', inline=[])
    cnt = 0
    for (a, b, c, d, n) in vectors:
        real = DT_InSV.opt(a, b, c, d, list(range(n)))
        got = ex.explore(lambda st: interp.call(DT_InSV.opt, [a, b, c, d, Seq(n, False)], st))[0]
        if got.kind != 'return' or tuple(got.value) != tuple(real):
            raise RuntimeError('translator validation failed on opt%r: real %r, astsmt %r' % ((a, b, c, d, n), real, got.value))
        cnt += 1
    return cnt


T_REPLAY = cooked('<dtml-in s start=a end=b size=c orphan=d overlap=e>'
                  '<dtml-call "rec(_)"></dtml-in>')


def real_window(vals, lazy=False):
    """window as the REAL renderer shows it; returns dict or ('exc', name)"""
    rows = []

    def rec(md):
        row = {'num': md['sequence-number'], 'prev': md['previous-sequence'], 'next': md['next-sequence'],
               'ss': md['sequence-step-start'], 'se': md['sequence-step-end'], 'sz': md['sequence-step-size']}
        for k in ('previous-sequence-start-number', 'previous-sequence-end-number', 'next-sequence-start-number',
                  'next-sequence-end-number'):
            try:
                row[k] = md[k]
            except KeyError:
                row[k] = None
        rows.append(row)
        return ''
    n = vals['n']
    seq = list(range(1, n + 1))
    if lazy:
        seq = iter(seq)
    try:
        T_REPLAY(s=seq, a=vals['start'], b=vals['end'], c=vals['size'], d=vals['orphan'], e=vals['overlap'], rec=rec)
    except Exception as ex:
        return ('exc', type(ex).__name__)
    return rows


def replay_theorem(cex):
    """replay an E2 counterexample on the real renderer: -> (holds?, detail)"""
    vals, name, lazy = cex['vals'], cex['theorem'], cex.get('lazy', False)
    rows = real_window(vals, lazy)
    if isinstance(rows, tuple):
        return False, 'real render of %r raised %s' % (vals, rows[1])
    if not rows:
        return True, 'nothing displayed'
    n, ov = vals['n'], vals['overlap']
    nums = [r['num'] for r in rows]
    s, e, z = nums[0], nums[-1], rows[0]['sz']
    ok = True
    if name == 'T1_range':
        ok = 1 <= s <= e <= n and nums == list(range(s, e + 1))
    elif name in ('T3_next_link', 'T4_progress'):
        if e < n and ov < z and vals['end'] <= 0:
            ns, ne = rows[-1]['next-sequence-start-number'], rows[-1]['next-sequence-end-number']
            ok = ns == e + 1 - ov and ne is not None and ne > e and ns > s
    elif name in ('T3_prev_link', 'T5_prev_progress'):
        if s > 1 and ov < z:
            ps, pe = rows[0]['previous-sequence-start-number'], rows[0]['previous-sequence-end-number']
            ok = ps is not None and ps < s and pe == min(s - 1 + ov, n)
    elif name == 'T2_orphan_rule':
        if vals['end'] <= 0 and vals['size'] >= 1:
            e0 = s + vals['size'] - 1
            ok = e == (e0 if n - e0 >= vals['orphan'] else n)
    elif name == 'T2b_explicit_end':
        if vals['start'] > 0 and vals['end'] > 0:
            ok = s == min(vals['start'], n) and e == max(s, min(vals['end'], n))
    return ok, 'real window for %r: shows %r, first row %r, last row %r' % (vals, nums, rows[0], rows[-1])


def make_e2(name, lazy):
    def run(extra=()):
        t0 = time.time()
        nvec = validate_translator()
        ex = Explorer()
        excl = []
        for e in extra:      # known-finding exclusions arrive as python expressions over the input names
            excl.append(eval(e, {'And': z3.And, 'Or': z3.Or, 'Not': z3.Not}, dict(V)))
        try:
            leaves = leaves_for(ex, lazy, WANT[name])
        except Unsupported as u:
            return {'status': 'inconclusive', 'message': 'astsmt: unsupported construct: %s' % u}
        bad, samples, unknown = None, [], 0
        for lf in leaves:
            if lf.kind != 'return':
                bad = ('raise', lf)
                break
            assume, claim = theorem(name, lf.value)
            r, m = ex.check(lf.pc + [assume, z3.Not(claim)] + [z3.Not(x) for x in excl])
            if r == 'unknown':
                unknown += 1
            elif r == 'sat':
                bad = ({k: model_value(m, v) for k, v in V.items()}, lf)
                break
        # reachability witnesses: one model per leaf (first 3 kept)
        for lf in leaves[:3]:
            r, m = ex.check(lf.pc)
            if r == 'sat':
                samples.append({'inputs': {k: model_value(m, v) for k, v in V.items()},
                                'window': str([z3.simplify(I(lf.value[k])) if astsmt.is_sym(lf.value[k]) else lf.value[k] for k in ('s', 'e', 'z')])})
        res = {'paths': len(leaves), 'queries': ex.queries, 'solver_s': round(ex.solver_s, 3), 'samples': samples,
               'wall_s': round(time.time() - t0, 2),
               'functions': ['DocumentTemplate/DT_InSV.py:opt', 'DocumentTemplate/DT_In.py:InClass.renderwb (window statements, prev/next opt calls)'],
               'translator_vectors': nvec}
        if bad is not None:
            if bad[0] == 'raise':
                res.update(status='inconclusive', message='a leaf raises %s' % bad[1].value)
            else:
                res.update(status='refuted', cex={'vals': bad[0], 'theorem': name, 'lazy': lazy},
                           message='%s fails for %r (lazy=%s)' % (name, bad[0], lazy))
        elif unknown:
            res.update(status='inconclusive', message='%d leaf queries answered unknown' % unknown)
        else:
            res.update(status='confirmed', message='%s: unsat on all %d leaves (all integers; %d translator vectors agree)' % (name, len(leaves), nvec))
        return res
    return run


# ------------------------------------------------------------------ E1: real batched renders, symbolic ints via variables
def ref_window(start, end, size, orphan, n):
    """independent oracle from the property statement; None where the statement is silent (size < 1)"""
    if size < 1:
        return None
    if start > 0:
        s = start if start <= n else n
        if end > 0:
            e = end if end <= n else n
            if e < s:
                e = s
            return s, e
        e0 = s + size - 1
        return (s, e0) if n - e0 >= orphan else (s, n)
    if end > 0:
        e = end if end <= n else n
        s = e + 1 - size
        if s - 1 < orphan:
            s = 1
        return s, e
    e0 = size
    return (1, e0) if n - e0 >= orphan else (1, n)


T_E1 = cooked('<dtml-in s start=a end=b size=c orphan=d overlap=e><dtml-call "rec(_)"></dtml-in>')
T_E1_LIT = {}


def make_e1(n):
    seq = list(range(1, n + 1))

    def ob(start: int, end: int, size: int, orphan: int, overlap: int) -> bool:
        rows = []

        def rec(md):
            row = [md['sequence-number'], md['previous-sequence'], md['next-sequence']]
            for k in ('previous-sequence-end-number', 'next-sequence-start-number', 'next-sequence-end-number',
                      'previous-sequence-start-number'):
                try:
                    row.append(md[k])
                except KeyError:
                    row.append(None)
            rows.append(row)
            return ''
        try:
            T_E1(s=seq, a=start, b=end, c=size, d=orphan, e=overlap, rec=rec)
        except Exception:
            return False
        nums = [r[0] for r in rows]
        if not nums:
            return False
        s, e = nums[0], nums[-1]
        # in range, contiguous, in order
        if not (1 <= s and s <= e and e <= n):
            return False
        for i in range(len(nums)):
            if nums[i] != s + i:
                return False
        w = ref_window(start, end, size, orphan, n)
        if w is not None and (w[0] != s or w[1] != e):
            return False
        # previous / next flags exactly on first / last element
        for i in range(len(rows)):
            if bool(rows[i][1]) != (i == 0 and s > 1):
                return False
            if bool(rows[i][2]) != (i == len(rows) - 1 and e < n):
                return False
        zeff = size if size >= 1 else (e + 1 - s if (start > 0 and end > 0 and end >= start) else 7)
        if e < n and overlap < zeff and end <= 0:
            if rows[-1][4] != e + 1 - overlap:
                return False
            if rows[-1][5] is None or not (rows[-1][5] > e):
                return False
        if s > 1 and overlap < zeff:
            pe = s - 1 + overlap
            if pe > n:
                pe = n
            if rows[0][3] != pe:
                return False
            if rows[0][6] is None or not (rows[0][6] < s):
                return False
        return True
    ob.__name__ = 'ob_render_n%d' % n
    return ob


def ob_walk(size: int, orphan: int, overlap: int, n: int) -> bool:
    """following next-sequence-start-number from 1 shows every element in order, neighbours share exactly `overlap`
    elements, and the walk terminates; then following previous-sequence-start-number from the last window reaches 1"""
    seq = list(range(1, n + 1))
    start, shown, steps, prev_end = 1, [], 0, 0
    last_rows = None
    while True:
        rows = []

        def rec(md):
            try:
                nx = md['next-sequence-start-number']
            except KeyError:
                nx = None
            try:
                pv = md['previous-sequence-start-number']
            except KeyError:
                pv = None
            rows.append((md['sequence-number'], md['next-sequence'], nx, md['previous-sequence'], pv))
            return ''
        T_E1(s=seq, a=start, b=0, c=size, d=orphan, e=overlap, rec=rec)
        nums = [r[0] for r in rows]
        if steps > 0 and nums[0] != prev_end + 1 - overlap:
            return False
        for x in nums:
            if x > len(shown):
                if x != len(shown) + 1:
                    return False
                shown.append(x)
        prev_end = nums[-1]
        steps += 1
        last_rows = rows
        if not rows[-1][1]:
            break
        start = rows[-1][2]
        if steps > n + 1:
            return False
    if shown != seq:
        return False
    # walk back
    cur = last_rows
    back = 0
    while cur[0][3]:
        start = cur[0][4]
        if start is None or start >= cur[0][0]:
            return False
        rows = []

        def rec2(md):
            try:
                pv = md['previous-sequence-start-number']
            except KeyError:
                pv = None
            rows.append((md['sequence-number'], 0, None, md['previous-sequence'], pv))
            return ''
        T_E1(s=seq, a=start, b=0, c=size, d=orphan, e=overlap, rec=rec2)
        cur = rows
        back += 1
        if back > n + 1:
            return False
    return cur[0][0] == 1


SRC_E1 = '<dtml-in s start=a end=b size=c orphan=d overlap=e><dtml-call "rec(_)"></dtml-in>'


def ob_render_twice(start1: int, size1: int, start2: int, size2: int, orphan: int) -> bool:
    """batch options given as variable names are resolved per rendering: a second rendering of the SAME compiled template
    with other values shows the second window"""
    from crosshair.tracers import NoTracing
    with NoTracing():
        t = HTML(SRC_E1)
        t.cook()
    n = 6
    seq = list(range(1, n + 1))
    for st, sz in ((start1, size1), (start2, size2)):
        nums = []
        t(s=seq, a=st, b=0, c=sz, d=orphan, e=0, rec=lambda md: nums.append(md['sequence-number']))
        w = ref_window(st, 0, sz, orphan, n)
        if nums != list(range(w[0], w[1] + 1)):
            return False
    return True


def explain(obname, args):
    if obname.startswith('render_n'):
        n = int(obname[8:])
        v = dict(start=args['start'], end=args['end'], size=args['size'], orphan=args['orphan'], overlap=args['overlap'], n=n)
        return 'real window: %r ; oracle %r' % (real_window(v), ref_window(v['start'], v['end'], v['size'], v['orphan'], n))
    return ''


NMAX = tier(6, 10)
OBLIGATIONS = []
for _name in WANT:
    for _lazy in (False, True):
        OBLIGATIONS.append(Ob('e2_%s_%s' % (_name, 'lazy' if _lazy else 'list'), make_e2(_name, _lazy), kind='custom', timeout=120,
                              replay=replay_theorem, engine='E2 astsmt (z3 Int)', twin=False,
                              data='start, end, size: all integers; orphan >= 0; overlap >= 0; n >= 1 (unbounded)',
                              selectors='index semantics: %s' % ('lazy wrapper (negative index raises)' if _lazy else 'list (negative index wraps)'),
                              bounds='no bound on the integers; the sequence is abstracted to its length (the only thing opt observes)',
                              outside='negative orphan/overlap; behaviour of sequence objects whose indexing disagrees with their length',
                              stubs='sequence abstracted to its length n; params dict without next/previous'))
for _n in range(1, NMAX + 1):
    OBLIGATIONS.append(Ob('render_n%d' % _n, make_e1(_n),
                          ['-1 <= start <= %d' % (_n + 2), '-1 <= end <= %d' % (_n + 2), '-1 <= size <= 7', '0 <= orphan <= 4', '0 <= overlap <= 3'],
                          timeout=tier(170, 900), data='start, end in -1..n+2, size in -1..7, orphan 0..4, overlap 0..3 (symbolic ints passed through variables)',
                          selectors='sequence length n = %d' % _n, outside='n > %d in whole renders; previous/next attribute mode' % NMAX))
OBLIGATIONS.append(Ob('walk_next_then_previous', ob_walk, ['1 <= n <= %d' % tier(5, 8), '1 <= size <= 4', '0 <= orphan <= 3', '0 <= overlap <= 3', 'overlap < size'],
                      timeout=tier(170, 900), data='n <= %d, size 1..4, orphan 0..3, overlap < size' % tier(5, 8),
                      selectors='repeated real renders following next-/previous-sequence-start-number'))
OBLIGATIONS.append(Ob('render_twice', ob_render_twice, ['1 <= start1 <= 3', '1 <= size1 <= 2', '1 <= start2 <= 3', '1 <= size2 <= 2', '0 <= orphan <= 1'], timeout=tier(250, 900),
                      data='start/size of two consecutive renderings of one freshly compiled template (symbolic ints through variables), orphan', selectors='6 elements',
                      stubs='template compiled untraced inside the obligation (fresh object per path)'))


# ---------------------------------------------------------------- wave 3: the batch LISTS, read on every row
T_LISTS = cooked('<dtml-in s start=a size=c orphan=d overlap=e><dtml-call "rec(_)"></dtml-in>')


def pick_small(k, n):
    lo, hi = 0, n
    while hi - lo > 1:
        mid = (lo + hi) // 2
        if k < mid:
            hi = mid
        else:
            lo = mid
    return lo


def ob_batch_lists(n: int, start: int, size: int, orphan: int, overlap: int, every: bool) -> bool:
    """next-batches / previous-batches announce the chain of following / preceding windows (each starting at end+1-overlap of the one
    before, resp. ending at start-1+overlap of the one after); they are asserted on the rows where next-/previous-sequence is true -
    whether the body looks at them on every row (every=True) or only on the edge rows"""
    from crosshair.tracers import NoTracing
    nn, st, sz, orp = pick_small(n, 7) + 1, pick_small(start, 7) + 1, pick_small(size, 3) + 1, pick_small(orphan, 3)
    ov = pick_small(overlap, 3)
    ev = bool(every)
    with NoTracing():
        if ov >= sz or st > nn:
            return True
        rows = []

        def rec(md):
            nxt = prv = None
            if ev or md['next-sequence']:
                nxt = [(b['batch-start-index'] + 1, b['batch-end-index'] + 1) for b in md['next-batches']]
            if ev or md['previous-sequence']:
                prv = [(b['batch-start-index'] + 1, b['batch-end-index'] + 1) for b in md['previous-batches']]
            rows.append((md['sequence-number'], bool(md['next-sequence']), bool(md['previous-sequence']), nxt, prv))
            return ''
        T_LISTS(s=list(range(1, nn + 1)), a=st, c=sz, d=orp, e=ov, rec=rec)
        s, e = ref_window(st, 0, sz, orp, nn)
        if [r[0] for r in rows] != list(range(s, e + 1)):
            return False
        # expected chains
        exp_next, ce = [], e
        while ce < nn:
            ws, we = ref_window(ce + 1 - ov, 0, sz, orp, nn)
            exp_next.append((ws, we))
            ce = we
        exp_prev, cs = [], s
        while cs > 1:
            ws, we = ref_window(0, cs - 1 + ov, sz, orp, nn)
            exp_prev.append((ws, we))
            cs = ws
        exp_prev.reverse()
        for i, (num, nx, pv, nxt, prv) in enumerate(rows):
            last, first = i == len(rows) - 1, i == 0
            if nx != (last and e < nn) or pv != (first and s > 1):
                return False
            # the lists are asserted where the statement speaks: on the row whose next-/previous-sequence flag is true (what they
            # hold on other rows is not specified); reading them on other rows first must not change that answer
            if nx and list(nxt) != exp_next:
                return False
            if pv and list(prv) != exp_prev:
                return False
        return True


OBLIGATIONS.append(Ob('batch_lists', ob_batch_lists, ['0 <= n < 7', '0 <= start < 7', '0 <= size < 3', '0 <= orphan < 3', '0 <= overlap < 3'], timeout=tier(250, 900), path_timeout=60,
                      data='-', selectors='length 1..7, start 1..7, size 1..3, orphan 0..2, overlap 0..2 (< size), bit "body reads the lists on every row": next-batches / previous-batches '
                      'against chains built from the statement\'s window rule', outside='sequences longer than 7; size > 3',
                      stubs='render runs untraced once the parameters are fixed on the path'))


# ---------------------------------------------------------------- wave 4: the 'previous' and 'next' tag modes
T_PREV = cooked('<dtml-in s previous start=a size=c orphan=d overlap=e>P<dtml-call "rec(_)"><dtml-else>NOPREV</dtml-in>')
T_NEXT = cooked('<dtml-in s next start=a size=c orphan=d overlap=e>N<dtml-call "rec(_)"><dtml-else>NONEXT</dtml-in>')


def ob_prev_next_tags(n: int, start: int, size: int, orphan: int, overlap: int) -> bool:
    """<dtml-in ... previous> / <dtml-in ... next> render their body once exactly when elements precede / remain (else their else body)
    and announce the SAME neighbouring batches as the batch itself announces on its first / last row (next starts at end+1-overlap,
    previous ends at start-1+overlap)"""
    from crosshair.tracers import NoTracing
    nn, st, sz, orp = pick_small(n, 7) + 1, pick_small(start, 7) + 1, pick_small(size, 3) + 1, pick_small(orphan, 3)
    ov = pick_small(overlap, 3)
    with NoTracing():
        if ov >= sz or st > nn:
            return True
        seq = list(range(1, nn + 1))
        s, e = ref_window(st, 0, sz, orp, nn)
        got_p, got_n, rows = [], [], []
        out_p = T_PREV(s=seq, a=st, c=sz, d=orp, e=ov, rec=lambda md: got_p.append((md['previous-sequence-start-number'], md['previous-sequence-end-number'], md['previous-sequence-size'])) or '')
        out_n = T_NEXT(s=seq, a=st, c=sz, d=orp, e=ov, rec=lambda md: got_n.append((md['next-sequence-start-number'], md['next-sequence-end-number'], md['next-sequence-size'])) or '')

        def rec(md):
            r = [md['sequence-number']]
            for k in ('previous-sequence-start-number', 'previous-sequence-end-number', 'next-sequence-start-number', 'next-sequence-end-number'):
                try:
                    r.append(md[k])
                except KeyError:
                    r.append(None)
            rows.append(r)
            return ''
        T_LISTS(s=seq, a=st, c=sz, d=orp, e=ov, rec=rec)
        if s > 1:
            ps, pe = ref_window(0, s - 1 + ov, sz, orp, nn)
            if out_p != 'P' or got_p != [(ps, pe, pe + 1 - ps)] or rows[0][1:3] != [ps, pe]:
                return False
        elif out_p != 'NOPREV' or got_p:
            return False
        if e < nn:
            ns_, ne = ref_window(e + 1 - ov, 0, sz, orp, nn)
            if out_n != 'N' or got_n != [(ns_, ne, ne + 1 - ns_)] or rows[-1][3:5] != [ns_, ne]:
                return False
        elif out_n != 'NONEXT' or got_n:
            return False
        return True


OBLIGATIONS.append(Ob('previous_next_tags', ob_prev_next_tags, ['0 <= n < 7', '0 <= start < 7', '0 <= size < 3', '0 <= orphan < 3', '0 <= overlap < 3'], timeout=tier(250, 900), path_timeout=60,
                      data='-', selectors='length 1..7, start 1..7, size 1..3, orphan 0..2, overlap 0..2 (< size): <dtml-in previous> / <dtml-in next> tags against the window rule and against the batch\'s own announcements',
                      outside='sequences longer than 7; size > 3', stubs='render runs untraced once the parameters are fixed on the path'))
