"""Helpers shared by the harness modules: independent oracles and pre-cooked templates of the REAL code."""
from DocumentTemplate import HTML, String

assert HTML.__module__.startswith('DocumentTemplate'), HTML.__module__


def ref_escape(s):
    """HTML escaping with quotes, written as a per-character chain (independent of html.escape)."""
    out = []
    for ch in s:
        if ch == '&':
            out.append('&amp;')
        elif ch == '<':
            out.append('&lt;')
        elif ch == '>':
            out.append('&gt;')
        elif ch == '"':
            out.append('&quot;')
        elif ch == "'":
            out.append('&#x27;')
        else:
            out.append(ch)
    return ''.join(out)


class Broken:
    """stands in for a template of the fixed harness set that the code under test fails to compile: every use raises, so the
    obligations that need it report a violation (replayed) instead of the whole harness failing to import"""

    def __init__(self, src, exc):
        self.src, self.exc = src, exc
        self._v_blocks = []

    def __call__(self, *a, **k):
        raise RuntimeError('template %r does not compile: %s: %s' % (self.src, type(self.exc).__name__, self.exc))

    def cook(self):
        raise RuntimeError('template %r does not compile: %s' % (self.src, self.exc))


def cooked(src, cls=HTML, **kw):
    t = cls(src, **kw)
    try:
        t.cook()
    except Exception as e:            # noqa: B902
        return Broken(src, e)
    return t
