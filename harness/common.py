"""Helpers shared by the harness modules: independent oracles and pre-cooked templates of the REAL code."""
from DocumentTemplate import HTML, String

assert HTML.__module__.startswith('DocumentTemplate'), HTML.__module__


def ref_escape(s):
    """HTML escaping with quotes, written as a per-character chain (independent of html.escape)."""
    out = []
    for ch in s:
        if ch == '&':
            out.append('&amp;')
        elif ch == '<':
            out.append('&lt;')
        elif ch == '>':
            out.append('&gt;')
        elif ch == '"':
            out.append('&quot;')
        elif ch == "'":
            out.append('&#x27;')
        else:
            out.append(ch)
    return ''.join(out)


def cooked(src, cls=HTML, **kw):
    t = cls(src, **kw)
    t.cook()
    return t
