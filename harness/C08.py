"""C08 - namespace stack and recursion level are restored on every exit path (engine E1, symbolic fault positions)."""
from crosshair.tracers import NoTracing

from DocumentTemplate._DocumentTemplate import TemplateDict
from DocumentTemplate.DT_Return import DTReturn

import TreeDisplay  # noqa: F401  (registers the tree tag)
from vlib.ob import Ob, tier
from harness.common import HTML, String

EXPLANATION = (
    'CrossHair runs real renders of pre-cooked templates that nest every block tag (with, let, in batched/unbatched, if, unless, '
    'try/except/else, try/finally, raise, return, sub-templates called by name, dtml-tree with branches / branches_expr / '
    'expand_all / leaves / header) into a caller-supplied TemplateDict. Every namespace value is a stub that bumps a counter '
    'and raises when counter == k or counter == k2, where k, k2 (fault positions) and the fault kinds (exception vs dtml-return) '
    'are symbolic: the solver forks at every reachable call site and prunes unreachable ones. Probe values placed directly '
    'before and after every block record (identity of every namespace-stack entry, level); the oracle demands equal snapshots '
    'around every block that was left (normally, by handled exception, by return) and an unchanged stack and level in the '
    "caller after the outermost call returned or raised. A symbolic initial level also drives the recursion guard (level > 200).")

ASSUMES = ['faults are raised by namespace values (Python level); asynchronous faults inside C code (MemoryError, KeyboardInterrupt, '
           'RecursionError raised between a push and its try) are outside']


class Boom(Exception):
    pass


class Env:
    def __init__(self, k, k2, ret1, ret2):
        self.k, self.k2, self.ret1, self.ret2 = k, k2, ret1, ret2
        self.count = 0
        self.snaps = {}
        self.pairs = []
        self.md = TemplateDict()
        self.md.guarded_getattr = None
        self.md.guarded_getitem = None

    def tick(self):
        self.count += 1
        c = self.count
        if c == self.k:
            if self.ret1:
                raise DTReturn('ret@%d' % c)
            raise Boom('fault #%d' % c)
        if c == self.k2:
            if self.ret2:
                raise DTReturn('ret@%d' % c)
            raise Boom('fault #%d' % c)

    def snap(self):
        return ([id(m) for m in self.md._data], self.md.level)


class Probe:
    """'pb<i>' records a snapshot; 'pa<i>' records (snapshot its own 'pb<i>' took last, snapshot now)"""

    def __init__(self, env, label, partner=None):
        self.env, self.label, self.partner = env, label, partner

    def __call__(self):
        now = self.env.snap()
        if self.partner is None:
            self.env.snaps[self.label] = now
        else:
            self.env.pairs.append((self.label, self.env.snaps.get(self.partner), now))
        return ''


class Stub:
    """callable namespace value with a fault point; never raises KeyError(<a name>)"""

    def __init__(self, env, val=''):
        self.env, self.val = env, val

    def __call__(self, *a):
        self.env.tick()
        return self.val


class FSeq:
    """sequence whose element access is a fault point"""

    def __init__(self, env, items):
        self.env, self.items = env, items

    def __getitem__(self, i):
        self.env.tick()
        return self.items[i]

    def __len__(self):
        return len(self.items)


class Obj:
    def __init__(self, env, **kw):
        self.__dict__.update(kw)
        self._env = env

    def meth(self):
        self._env.tick()
        return 'm'


class Node:
    def __init__(self, env, id, kids=()):
        self._env, self.id, self.kids = env, id, list(kids)

    def tpId(self):
        return self.id

    def tpURL(self):
        return self.id

    def tpValues(self):
        self._env.tick()
        return self.kids

    def title(self):
        self._env.tick()
        return 'T' + self.id


class Response:
    def setCookie(self, *a, **k):
        pass


# ------------------------------------------------------------------ templates; pb<i>/pa<i> = probe before/after block i
SUB = HTML('<dtml-var qb1><dtml-with w mapping><dtml-call s1><dtml-let z=s2><dtml-call s3></dtml-let></dtml-with><dtml-var qa1>', subdef=1)
SUB.cook()


class HookedSub(HTML):
    """sub-template whose ZDocumentTemplate_beforeRender hook is a fault point (it may also short-cut the rendering)"""
    env = None

    def ZDocumentTemplate_beforeRender(self, md, default):
        self.env.tick()
        return default

    def ZDocumentTemplate_afterRender(self, md, result):
        self.env.tick()


HSUB = HookedSub('<dtml-var qb1><dtml-call s1><dtml-var qa1>', hookdef=1)
HSUB.cook()

SRC = {
    'blocks': (
        '<dtml-var pb1><dtml-with w mapping><dtml-call f1>'
        '<dtml-var pb2><dtml-let a=f2 b="f3()"><dtml-call f4>'
        '<dtml-var pb3><dtml-in seq mapping><dtml-call f5>'
        '<dtml-var pb4><dtml-if c1><dtml-call f6><dtml-elif c2>e</dtml-if><dtml-var pa4>'
        '<dtml-var pb5><dtml-unless c3><dtml-call f7></dtml-unless><dtml-var pa5>'
        '</dtml-in><dtml-var pa3>'
        '</dtml-let><dtml-var pa2>'
        '</dtml-with><dtml-var pa1>'
        '<dtml-var pb6><dtml-with obj><dtml-call meth><dtml-in fseq><dtml-call f8></dtml-in></dtml-with><dtml-var pa6>'
        '<dtml-var pb7><dtml-let k=f9><dtml-with w only mapping><dtml-var wx><dtml-call "1"></dtml-with><dtml-call f10>'
        '<dtml-with obj only><dtml-call meth><dtml-var ov></dtml-with></dtml-let><dtml-var pa7>'
    ),
    'try': (
        '<dtml-var pb1><dtml-try><dtml-call f1><dtml-with w mapping><dtml-call f2></dtml-with>'
        '<dtml-except Boom><dtml-call f3><dtml-var error_type><dtml-let q=f4><dtml-call f5></dtml-let>'
        '<dtml-else><dtml-call f6></dtml-try><dtml-var pa1>'
        '<dtml-var pb2><dtml-try><dtml-call f7><dtml-in seq mapping><dtml-call f8></dtml-in>'
        '<dtml-finally><dtml-call f9><dtml-with w mapping><dtml-call f10></dtml-with></dtml-try><dtml-var pa2>'
        '<dtml-var pb3><dtml-try><dtml-try><dtml-call f11><dtml-finally><dtml-call f12></dtml-try>'
        '<dtml-except><dtml-call f13></dtml-try><dtml-var pa3>'
        '<dtml-var pb4><dtml-try><dtml-raise Boom><dtml-call f14>msg</dtml-raise><dtml-except><dtml-call f15></dtml-try><dtml-var pa4>'
    ),
    'sub': (
        '<dtml-var pb1><dtml-try><dtml-var sub><dtml-except><dtml-call f1></dtml-try><dtml-var pa1>'
        '<dtml-var pb2><dtml-in seq mapping><dtml-try><dtml-var sub><dtml-except>x</dtml-try><dtml-call f2></dtml-in><dtml-var pa2>'
        '<dtml-var pb3><dtml-try><dtml-var "sub(obj, _, kwx=f3())"><dtml-except>y</dtml-try><dtml-var pa3>'
        '<dtml-var pb4><dtml-try><dtml-var "sub((obj, obj), _)"><dtml-call f4><dtml-except>z</dtml-try><dtml-var pa4>'
    ),
    'hooks_empty_handlers': (
        '<dtml-var pb1><dtml-try><dtml-var hsub><dtml-except></dtml-try><dtml-var pa1>'
        '<dtml-var pb2><dtml-try><dtml-call f1><dtml-except Boom></dtml-try><dtml-var pa2>'
        '<dtml-var pb3><dtml-with w mapping><dtml-try><dtml-call f2><dtml-var "hsub(obj, _, k=1)"><dtml-except></dtml-try><dtml-call f3></dtml-with><dtml-var pa3>'
        '<dtml-var pb4><dtml-try><dtml-try><dtml-call f4><dtml-except></dtml-try><dtml-call f5><dtml-except><dtml-var error_type></dtml-try><dtml-var pa4>'
    ),
    'batch': (
        '<dtml-var pb1><dtml-try><dtml-in seq mapping size=2 orphan=0 prefix=p><dtml-call f1>'
        '<dtml-var pb2><dtml-in fseq size=1 start=2><dtml-call f2></dtml-in><dtml-var pa2>'
        '<dtml-if sequence-end><dtml-call f3></dtml-if></dtml-in><dtml-except>h</dtml-try><dtml-var pa1>'
        '<dtml-var pb3><dtml-try><dtml-in empty><dtml-call f4><dtml-else><dtml-call f5></dtml-in>'
        '<dtml-in objs sort=key><dtml-call meth></dtml-in><dtml-except>i</dtml-try><dtml-var pa3>'
        '<dtml-var pb4><dtml-try><dtml-in strs><dtml-call f6></dtml-in><dtml-in mixed><dtml-call f7></dtml-in><dtml-except>j</dtml-try><dtml-var pa4>'
    ),
}
TREE_SRC = {
    'tree_plain': '<dtml-var pb1><dtml-try><dtml-tree root branches=tpValues><dtml-var title></dtml-tree><dtml-except>t</dtml-try><dtml-var pa1>',
    'tree_bexpr': '<dtml-var pb1><dtml-try><dtml-tree root branches_expr="tpValues()"><dtml-var title><dtml-call f1></dtml-tree><dtml-except>t</dtml-try><dtml-var pa1>',
    'tree_leaves': '<dtml-var pb1><dtml-try><dtml-tree root branches=tpValues leaves=leafdoc header=leafdoc><dtml-var title></dtml-tree><dtml-except>t</dtml-try><dtml-var pa1>',
}
T = {k: HTML(v, tdef=1) for k, v in SRC.items()}
T.update({k: HTML(v, tdef=1) for k, v in TREE_SRC.items()})
for _t in T.values():
    _t.cook()
LEAF = HTML('<dtml-var qb1><dtml-call s1><dtml-var qa1>')
LEAF.cook()


def build_ns(env, tree_mode=None):
    ns = {'Boom': Boom}
    for i in range(1, 8):
        ns['pb%d' % i] = Probe(env, 'pb%d' % i)
        ns['pa%d' % i] = Probe(env, 'pa%d' % i, 'pb%d' % i)
    ns['qb1'] = Probe(env, 'qb1')
    ns['qa1'] = Probe(env, 'qa1', 'qb1')
    for i in range(1, 16):
        ns['f%d' % i] = Stub(env)
    for i in range(1, 4):
        ns['s%d' % i] = Stub(env)
    ns['c1'] = Stub(env, 1)
    ns['c2'] = Stub(env, 0)
    ns['c3'] = Stub(env, 0)
    ns['w'] = {'wx': 1}
    ns['seq'] = [{'e': 1}, {'e': 2}]
    ns['fseq'] = FSeq(env, [Obj(env, v=1), Obj(env, v=2)])
    ns['obj'] = Obj(env, ov=5)
    ns['objs'] = [Obj(env, key=2), Obj(env, key=1)]
    ns['empty'] = []
    ns['strs'] = ['a', 'b']
    ns['mixed'] = [Obj(env, v=1), 'txt', 3]
    ns['sub'] = SUB
    HookedSub.env = env
    ns['hsub'] = HSUB
    ns['leafdoc'] = LEAF
    ns['root'] = Node(env, 'r', [Node(env, 'a', [Node(env, 'a1'), Node(env, 'a2')]), Node(env, 'b'), Node(env, 'c', [Node(env, 'c1')])])
    ns['URL'] = 'http://h/doc'
    ns['RESPONSE'] = Response()
    if tree_mode == 'expand_all':
        ns['expand_all'] = 1
    elif tree_mode == 'collapse_all':
        ns['collapse_all'] = 1
    return ns


def balanced(env):
    for label, b, a in env.pairs:
        if b is None or a != b:
            return False
    return True


def run(key, k, k2, ret1, ret2, tree_mode=None, client=False, level0=3):
    env = Env(k, k2, ret1, ret2)
    md = env.md
    ns = build_ns(env, tree_mode)
    md._push({'base': 0})
    md._push(ns)
    md.level = level0
    before = env.snap()
    t = T[key]
    try:
        if client:
            t(Obj(env, cv=1), md, kwv=2)
        else:
            t(None, md)
    except (Boom, SystemError):
        pass
    after = env.snap()
    if after != before:
        return False
    return balanced(env)


def count_ticks(key, tree_mode=None):
    """number of fault points a fault-free render reaches (sizes the fault-position ranges).  It runs at import: a code change that
    makes this very render fail must surface as violations of the obligations (exit 1), not as a harness import error (exit 3)"""
    env = Env(0, 0, False, False)
    md = env.md
    md._push({'base': 0})
    md._push(build_ns(env, tree_mode))
    try:
        T[key](None, md)
    except Exception:            # noqa: B902
        return max(env.count, 24)
    return env.count


def pick(k, n):
    """realise a symbolic int in 0..n-1 by bisection (comparisons only)"""
    lo, hi = 0, n
    while hi - lo > 1:
        mid = (lo + hi) // 2
        if k < mid:
            hi = mid
        else:
            lo = mid
    return lo


def make1(key, tree_mode=None, client=False):
    """single fault, fully traced: the fault position is compared lazily at every call site the real code reaches"""
    def ob(k: int, ret1: bool) -> bool:
        return run(key, k, 0, ret1, False, tree_mode, client)
    ob.__name__ = 'ob1_%s_%s%s' % (key, tree_mode or 'x', '_client' if client else '')
    return ob


def make2(key, n, tree_mode=None, client=False):
    """two faults: positions and kinds are fixed by solver-enumerated comparisons up front, the render itself runs untraced"""
    def ob(k: int, k2: int, ret1: bool, ret2: bool) -> bool:
        a, b = pick(k, n + 1), pick(k2, n + 1)
        r1, r2 = bool(ret1), bool(ret2)
        with NoTracing():
            return run(key, a, b, r1, r2, tree_mode, client)
    ob.__name__ = 'ob2_%s_%s%s' % (key, tree_mode or 'x', '_client' if client else '')
    return ob


def ob_level(level0: int, k: int) -> bool:
    """recursion guard: a sub-template call at an arbitrary level (incl. > 200) leaves stack and level as found"""
    return run('sub', k, 0, False, False, None, False, level0) and run('blocks', k, 0, False, False, None, True, level0)


def explain(obname, args):
    return ''


OBLIGATIONS = []
KMAX = {}
for _key in SRC:
    KMAX[_key] = count_ticks(_key)
for _key in TREE_SRC:
    for _mode in (None, 'expand_all'):
        KMAX[(_key, _mode)] = count_ticks(_key, _mode)

def add(key, mode, client, n, sel):
    nm = '%s%s%s' % (key, '_' + mode if mode else '', '_client' if client else '')
    OBLIGATIONS.append(Ob('fault1_' + nm, make1(key, mode, client), ['0 <= k <= %d' % (n + 1)], timeout=tier(200, 900),
                          data='fault position k in 0..%d (0 = none; a fault-free run reaches %d call sites), fault kind (exception / dtml-return); compared lazily inside the traced render' % (n + 1, n),
                          selectors=sel, outside='faults raised inside C code'))
    OBLIGATIONS.append(Ob('fault2_' + nm, make2(key, n, mode, client), ['1 <= k < k2 <= %d' % n], timeout=tier(250, 1200), path_timeout=60,
                          data='two fault positions 1 <= k < k2 <= %d and their kinds (exception / dtml-return), e.g. a fault in the body and a second one in the handler or finally block' % n,
                          selectors=sel, outside='more than two faults per render', stubs='render runs untraced once the fault positions are fixed on the path'))


for _key in SRC:
    for _client in (False, True):
        if _client and _key not in ('blocks', 'sub'):
            continue
        add(_key, None, _client, KMAX[_key], 'template %r%s' % (_key, ' called with a client object and keyword arguments' if _client else ''))
for _key in TREE_SRC:
    for _mode in (None, 'expand_all'):
        add(_key, _mode, False, KMAX[(_key, _mode)], 'dtml-tree template %r, %s' % (_key, _mode or 'state from cookie (collapsed)'))
OBLIGATIONS.append(Ob('level_guard', ob_level, ['0 <= level0 <= 250', '0 <= k <= 8'], timeout=tier(200, 900),
                      data='initial recursion level 0..250 of the caller-supplied namespace (the guard trips above 200), fault position k',
                      selectors='sub-template template and blocks template called with client + keywords'))


# ---------------------------------------------------------------- wave 3: shapes (what the fixed namespaces above never vary)
SRC_CONDS = (
    '<dtml-var pb1><dtml-if c1>a<dtml-elif c2>b<dtml-call f1><dtml-elif c3>c<dtml-else>d<dtml-call f2></dtml-if><dtml-var pa1>'
    '<dtml-var pb2><dtml-let q=f3><dtml-if c2>x<dtml-elif c1><dtml-call f4><dtml-elif "c4">w</dtml-if></dtml-let><dtml-var pa2>'
    '<dtml-var pb3><dtml-in seq mapping><dtml-unless c3><dtml-if c4>y<dtml-elif c1>z</dtml-if></dtml-unless><dtml-call c2></dtml-in><dtml-var pa3>'
    '<dtml-var pb4><dtml-try><dtml-if c1><dtml-elif c2><dtml-elif c3><dtml-elif c4></dtml-if><dtml-call f5><dtml-except>h</dtml-try><dtml-var pa4>'
)
T['conds'] = HTML(SRC_CONDS, tdef=1)
T['conds'].cook()


def run_conds(k, ret1, t1, t2, t3, t4, d1, d2, d3, d4):
    env = Env(k, 0, ret1, False)
    md = env.md
    ns = build_ns(env)
    for name, tv, dv in (('c1', t1, d1), ('c2', t2, d2), ('c3', t3, d3), ('c4', t4, d4)):
        if dv:
            ns[name] = Stub(env, 1 if tv else 0)
        else:
            ns.pop(name, None)
    md._push({'base': 0})
    md._push(ns)
    md.level = 3
    before = env.snap()
    try:
        T['conds'](None, md)
    except (Boom, SystemError):
        pass
    except (KeyError, NameError):
        pass          # <dtml-call c2> / "c4" with an undefined name
    return env.snap() == before and balanced(env)


def make_shape_conds(d1, d2):
    def ob(k: int, ret1: bool, t1: bool, t2: bool, t3: bool, t4: bool, d3: bool, d4: bool) -> bool:
        """conditionals with several named conditions: truth value and definedness of every condition selected, one fault"""
        a = pick(k, 15)
        r1, b1, b2, b3, b4, e3, e4 = bool(ret1), bool(t1), bool(t2), bool(t3), bool(t4), bool(d3), bool(d4)
        with NoTracing():
            return run_conds(a, r1, b1, b2, b3, b4, d1, d2, e3, e4)
    ob.__name__ = 'ob_shape_conds_%d%d' % (d1, d2)
    return ob


for _d1 in (False, True):
    for _d2 in (False, True):
        OBLIGATIONS.append(Ob('shape_conds_%d%d' % (_d1, _d2), make_shape_conds(_d1, _d2), ['0 <= k <= 14'], timeout=tier(280, 1200), path_timeout=60,
                              data='-', selectors='if/elif/else chains with 2-4 named conditions at top level, inside let, inside in+unless, inside try: truth value of '
                              'four condition names and definedness of c3, c4 (6 bits; c1 %sdefined, c2 %sdefined), fault position 0..14, fault kind' % (
                                  '' if _d1 else 'un', '' if _d2 else 'un'),
                              outside='chains longer than four conditions', stubs='render runs untraced once the selectors are fixed on the path'))

TREE_OPTS_SRC = ('<dtml-var pb1><dtml-let lq=lv><dtml-try><dtml-tree root branches=tpValues leaves=leafdoc expand=expdoc header=hdrdoc footer=ftrdoc%s>'
                 '<dtml-var title></dtml-tree><dtml-except>t</dtml-try><dtml-var pb2><dtml-var pa2></dtml-let><dtml-var pa1>')
T['tree_opts'] = HTML(TREE_OPTS_SRC % '', tdef=1)
T['tree_opts_assume'] = HTML(TREE_OPTS_SRC % ' assume_children=1', tdef=1)
T['tree_opts_sort'] = HTML(TREE_OPTS_SRC % ' sort=id reverse=1', tdef=1)
for _k in ('tree_opts', 'tree_opts_assume', 'tree_opts_sort'):
    T[_k].cook()
DOC2 = HTML('<dtml-var qb1><dtml-call s2><dtml-var qa1>')
DOC2.cook()


def run_tree_opts(key, k, ret1, leaf, exp, hdr, ftr, state_sel, mode_sel):
    from TreeDisplay.TreeTag import encode_seq
    env = Env(k, 0, ret1, False)
    md = env.md
    mode = 'expand_all' if mode_sel == 1 else 'collapse_all' if mode_sel == 2 else None
    ns = build_ns(env, mode)
    ns['lv'] = 1
    del ns['leafdoc']
    if leaf:
        ns['leafdoc'] = LEAF
    if exp:
        ns['expdoc'] = DOC2
    if hdr:
        ns['hdrdoc'] = LEAF
    if ftr:
        ns['ftrdoc'] = DOC2
    # which nodes are open (the state cookie): nothing / root / root+a / root+a+b(childless)+c
    if state_sel == 1:
        ns['tree-s'] = encode_seq([['r']])
    elif state_sel == 2:
        ns['tree-s'] = encode_seq([['r', [['a']]]])
    elif state_sel == 3:
        ns['tree-s'] = encode_seq([['r', [['a'], ['b'], ['c']]]])
    md._push({'base': 0})
    md._push(ns)
    md.level = 3
    before = env.snap()
    try:
        T[key](None, md)
    except (Boom, SystemError):
        pass
    return env.snap() == before and balanced(env)


def make_tree_opts(key):
    def ob(k: int, ret1: bool, leaf: bool, exp: bool, hdr: bool, ftr: bool, st: int, mode: int) -> bool:
        a, s, m = pick(k, 13), pick(st, 4), pick(mode, 3)
        r1, lf, ex, hd, ft = bool(ret1), bool(leaf), bool(exp), bool(hdr), bool(ftr)
        with NoTracing():
            return run_tree_opts(key, a, r1, lf, ex, hd, ft, s, m)
    ob.__name__ = 'ob_' + key
    return ob


for _k in ('tree_opts', 'tree_opts_assume', 'tree_opts_sort'):
    OBLIGATIONS.append(Ob('shape_' + _k, make_tree_opts(_k), ['0 <= k <= 12', '0 <= st <= 3', '0 <= mode <= 2'], timeout=tier(280, 1200), path_timeout=60,
                          data='-', selectors='dtml-tree with leaves= / expand= / header= / footer= documents each defined or NOT defined in the namespace (4 bits), '
                          'open-node state from the cookie (none / root / root+a / root+a+b+c), expand_all / collapse_all / neither, one fault position 0..12 and kind; '
                          'stack compared before/after the tag and around an enclosing let',
                          stubs='render runs untraced once the selectors are fixed on the path'))
