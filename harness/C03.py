"""C03 - html_quote / &dtml-name; output is exactly the HTML-escaped value (engine E1)."""
import html

from vlib.ob import Ob, tier
from harness.common import HTML, String, cooked, ref_escape

EXPLANATION = ('CrossHair executes the real render path (String.__call__, render_blocks_, Var.render, html_quote) on a '
               'symbolic str value of bounded length, any code points, and compares the output with an independent '
               'per-character escaping oracle for every insertion form.')

N = tier(3, 4)          # value length bound, full path
NF = tier(3, 4)         # fast path (three-element simple form)

FORMS = {
    # name: (template source, class, oracle transform before escaping, fast?)
    'entity': ('&dtml-x;', HTML, None, True),
    'var_hq': ('<dtml-var x html_quote>', HTML, None, True),
    'ssi_hq': ('<!--#var x html_quote-->', HTML, None, True),
    'expr_hq': ('<dtml-var "x" html_quote>', HTML, None, True),
    'epfs_hq': ('%(x html_quote)s', String, None, True),
    'hq_spacify': ('<dtml-var x html_quote spacify>', HTML, 'spacify', False),
    'fmt_hq': ('<dtml-var x fmt=html-quote>', HTML, None, False),
    'fmt_hq_null': ('<dtml-var x fmt=html-quote null="">', HTML, 'null', False),
    'ent_mod': ('&dtml.html_quote-x;', HTML, None, True),
    'hq_size': ('<dtml-var x html_quote size=99>', HTML, None, False),
}
T = {k: cooked(v[0], v[1]) for k, v in FORMS.items()}
T_PLAIN = cooked('<dtml-var x>')
T2 = {enc: {k: cooked('a' + v[0], v[1], encoding=enc) for k, v in FORMS.items()} for enc in ('utf-8', 'latin-1')}


def expected(form, s):
    tr = FORMS[form][2]
    if tr == 'spacify':
        s = s.replace('_', ' ')
    if tr == 'null' and not s:
        return ''
    return ref_escape(s)


def make(form):
    t = T[form]

    def ob(s: str) -> bool:
        return t(x=s) == expected(form, s)
    ob.__name__ = 'ob_' + form
    return ob


def ob_plain(s: str) -> bool:
    return T_PLAIN(x=s) == s


def ob_unescape(s: str) -> bool:
    out = T['entity'](x=s)
    for ch in out:
        if ch == '<' or ch == '>' or ch == '"' or ch == "'":
            return False
    return html.unescape(T['hq_spacify'](x=s)) == s.replace('_', ' ')


def make_bytes(form, enc):
    t = T2[enc][form]

    def ob(s: str) -> bool:
        if enc == 'latin-1':
            for ch in s:
                if ord(ch) > 255:
                    return True
        else:
            for ch in s:
                if 0xD800 <= ord(ch) <= 0xDFFF:
                    return True
        return t(x=s.encode(enc)) == 'a' + expected(form, s)
    ob.__name__ = 'ob_bytes_%s_%s' % (form, enc.replace('-', ''))
    return ob


from AccessControl.tainted import TaintedString       # noqa: E402

T_SEQ = cooked('&dtml-t;|&dtml-x;|<dtml-in seq>&dtml-t;<dtml-var x html_quote></dtml-in>')


def ob_after_tainted(s: str) -> bool:
    """an untainted value inserted AFTER a tainted one in the same block list is still escaped (per-insertion decision)"""
    out = T_SEQ(t=TaintedString('<i>'), x=s, seq=[1])
    e = ref_escape(s)
    return out == '&lt;i&gt;|' + e + '|&lt;i&gt;' + e


class StrBytes:
    def __init__(self, b):
        self.b = b

    def __str__(self):
        return self.b


class StrObj:
    def __init__(self, s):
        self.s = s

    def __str__(self):
        return self.s


VPOOL = ['<k>', "it's", 'a&b', '', 'é"']


def ob_nonstring_values(j: int, kind: int) -> bool:
    """the value's string form is the same for every quoting form: exceptions are inserted as their message, objects through
    their own __str__ (also when it returns bytes)"""
    s = VPOOL[0]
    for i in range(len(VPOOL)):
        if j == i:
            s = VPOOL[i]
    if kind == 0:
        v = KeyError(s)
    elif kind == 1:
        v = ValueError(s)
    elif kind == 2:
        v = StrObj(s)
    elif kind == 3:
        v = StrBytes(s.encode('utf-8'))
    else:
        v = ValueError(StrObj(s))
    want = ref_escape(s)
    for k in ('entity', 'var_hq', 'fmt_hq', 'hq_size', 'ent_mod', 'expr_hq'):
        if T2['utf-8'][k](x=v) != 'a' + want:
            return False
    return True


OBLIGATIONS = []
for _f, (_src, _cls, _tr, _fast) in FORMS.items():
    n = NF if _fast else N
    OBLIGATIONS.append(Ob(
        'form_' + _f, make(_f), ['len(s) <= %d' % n], timeout=tier(150, 900),
        data='s: str, any code points, len <= %d' % n, selectors='insertion form %r' % _src,
        outside='values longer than %d characters' % n,
        stubs='relib-escape' if _cls is String else ''))
OBLIGATIONS.append(Ob('plain_unchanged', ob_plain, ['len(s) <= %d' % NF], timeout=tier(60, 200),
                      data='s: str len <= %d' % NF, selectors='<dtml-var x>'))
OBLIGATIONS.append(Ob('unescape_roundtrip', ob_unescape, ['len(s) <= 2'], timeout=tier(120, 300),
                      data='s: str len <= 2', selectors='entity + full path'))
for _enc in ('utf-8', 'latin-1'):
    for _f in ('entity', 'var_hq', 'hq_spacify', 'fmt_hq'):
        OBLIGATIONS.append(Ob(
            'bytes_%s_%s' % (_f, _enc.replace('-', '')), make_bytes(_f, _enc), ['len(s) <= 2'], timeout=tier(120, 300),
            data='s: str len <= 2 (encodable), value passed as s.encode(%s)' % _enc,
            selectors='form %s in a two-piece template created with encoding=%s' % (_f, _enc),
            outside='encodings other than utf-8/latin-1; values longer than 2'))


def explain(obname, args):
    s = args.get('s')
    out = {}
    for k, t in T.items():
        try:
            out[k] = t(x=s)
        except Exception as e:
            out[k] = repr(e)
    return 'outputs per form for s=%r: %r; expected %r' % (s, out, ref_escape(s))
OBLIGATIONS.append(Ob('after_tainted', ob_after_tainted, ['len(s) <= 2'], timeout=tier(250, 900), data='s: str len <= 2', selectors='tainted value first, then the symbolic untainted value, top level and inside dtml-in'))
OBLIGATIONS.append(Ob('nonstring_values', ob_nonstring_values, ['0 <= j < %d' % len(VPOOL), '0 <= kind <= 4'], timeout=tier(150, 600), data='message picked from %r' % VPOOL,
                      selectors='KeyError / ValueError / object with __str__ -> str / -> bytes / exception with object message, through six quoting forms'))


# ---------------------------------------------------------------- wave 3: quoting decisions are per value, also across renderings
from crosshair.tracers import NoTracing      # noqa: E402

SRC_HIST = ('<dtml-var x html_quote null="">|<dtml-var name=x html_quote missing="-">|<dtml-var x html_quote size=99>|<dtml-var x fmt=html-quote null="">|'
            '&dtml-x;|<dtml-var x html_quote>|<dtml-var x html_quote spacify>|<dtml-var "x" html_quote upper>')
SRC_HIST_S = '%(x html_quote null="")s|%(x html_quote)s'


HALPHA = ['&', '<', '>', '"', "'", 'a', '_', '\xe9', '']


def _hpick(k):
    lo, hi = 0, len(HALPHA)
    while hi - lo > 1:
        mid = (lo + hi) // 2
        if k < mid:
            hi = mid
        else:
            lo = mid
    return HALPHA[lo]


def ob_history_tainted_then_plain(k1: int, k2: int, k3: int, n_tainted: int) -> bool:
    """one template object, rendered n times with a tainted value and THEN with an ordinary string: every quoting form still escapes the
    ordinary string (the first renderings leave nothing behind on the compiled tags)"""
    s = _hpick(k1) + _hpick(k2) + _hpick(k3)
    nt = 0 if n_tainted <= 0 else 1 if n_tainted == 1 else 2
    with NoTracing():
        t, ts = HTML(SRC_HIST), String(SRC_HIST_S)
        t.cook()
        ts.cook()
        for i in range(nt):
            t(x=TaintedString('<i>%d' % i))
            ts(x=TaintedString('<i>%d' % i))
        e = ref_escape(s)
        es = ref_escape(s).replace('_', ' ')
        eu = ref_escape(s).upper()          # documented modifier order: html_quote first, case mapping later
        if not s:
            return t(x=s) == '|||||||' and ts(x=s) == '|'
        return t(x=s) == '|'.join([e, e, e, e, e, e, es, eu]) and ts(x=s) == e + '|' + e


OBLIGATIONS.append(Ob('history_tainted_then_plain', ob_history_tainted_then_plain, ['0 <= k1 < 9', '0 <= k2 < 9', '0 <= k3 < 9', '0 <= n_tainted <= 2'], timeout=tier(250, 900), path_timeout=60,
                      data='-', selectors='value = 3 characters each selected from %r; number of earlier renderings with a tainted value 0..2; eight quoting forms (full-path html_quote with null / '
                      'missing / size / spacify / upper, fmt=html-quote, entity, simple form) and two EPFS forms on ONE fresh template object' % HALPHA,
                      stubs='template compiled and rendered untraced once the selectors are fixed on the path'))


# ---------------------------------------------------------------- wave 4
T_STRAY = {
    'dash': cooked('R&dtml-D dept: &dtml-x;|<dtml-var x html_quote>;'),
    'dot': cooked('see &dtml.foo bar &dtml-x; and &dtml.url_quote-y;'),
    'unfinished': cooked('&dtml-unfinished <b>&dtml-x;</b>'),
    'query': cooked('<a href="show?id=1&dtml-lang=&dtml-x;;k">'),
}


def ob_entity_after_stray_prefix(s: str) -> bool:
    """an entity reference is recognised (and its value escaped) wherever it stands - also after text that merely looks like the
    beginning of another entity"""
    e = ref_escape(s)
    return (T_STRAY['dash'](x=s) == 'R&dtml-D dept: ' + e + '|' + e + ';'
            and T_STRAY['dot'](x=s, y='Y') == 'see &dtml.foo bar ' + e + ' and Y'
            and T_STRAY['unfinished'](x=s) == '&dtml-unfinished <b>' + e + '</b>'
            and T_STRAY['query'](x=s) == '<a href="show?id=1&dtml-lang=' + e + ';k">')


OBLIGATIONS.append(Ob('entity_after_stray_prefix', ob_entity_after_stray_prefix, ['len(s) <= 2'], timeout=tier(200, 600), data='s: str len <= 2',
                      selectors='&dtml-x; preceded by literal text that looks like an entity opener (&dtml-D dept, &dtml.foo bar, &dtml-lang=)'))


class Mut:
    def __init__(self, t):
        self.t = t

    def __str__(self):
        return self.t

    def __eq__(self, other):
        return isinstance(other, Mut)

    def __hash__(self):
        return 1


SRC_EQ = '<dtml-var x fmt=html-quote>|%s|<dtml-var x html_quote null="">|<dtml-var x html_quote>|&dtml-x;'
EQ_GROUPS = [[1, 1.0, True], [0, 0.0, False], [(1, '<'), (1.0, '<')], ['a&', 'a&']]


def ob_history_equal_values(g: int, i: int, j: int, k: int) -> bool:
    """values that compare EQUAL but print differently (1 / 1.0 / True, a mutable object whose text changed) rendered one after the other
    on ONE template object: every quoting form shows the current value's own escaped text"""
    gi = 0 if g <= 0 else 1 if g == 1 else 2 if g == 2 else 3 if g == 3 else 4
    i, j, k = [0 if q <= 0 else 1 if q == 1 else 2 for q in (i, j, k)]
    with NoTracing():
        t = HTML(SRC_EQ % '<dtml-var x fmt=html-quote size=99>')
        ts = String('%(x fmt=html-quote)s|%(x html_quote)s')
        t.cook()
        ts.cook()
        if gi == 4:
            m = Mut('first<')
            seq = [m, m, m]
            texts = ['first<', 'second&', "third'"]
        else:
            grp = EQ_GROUPS[gi]
            seq = [grp[i % len(grp)], grp[j % len(grp)], grp[k % len(grp)]]
            texts = None
        for n, v in enumerate(seq):
            if texts:
                v.t = texts[n]
            e = ref_escape(str(v))
            if t(x=v) != '|'.join([e] * 5) or ts(x=v) != e + '|' + e:
                return False
        return True


OBLIGATIONS.append(Ob('history_equal_values', ob_history_equal_values, ['0 <= g <= 4', '0 <= i < 3', '0 <= j < 3', '0 <= k < 3'], timeout=tier(200, 600), path_timeout=60,
                      data='-', selectors='three renderings of one template object with values picked from a group of equal-comparing values %r or one mutable object whose text changes; seven quoting forms' % EQ_GROUPS,
                      stubs='runs untraced once the selectors are fixed on the path'))


# ---------------------------------------------------------------- wave 5: values that already LOOK escaped
REF_POOL = ['&amp;', '&lt;', 'AT&amp;T', '&amp;amp;', '&#x27;', '&quot;x', '&gt', 'a&lt;b&gt;c', '&#39;', '&AMP;', '&amp', '&amp;lt;', '&nbsp;', '&#x26;', '&amp;#x27;']


def ob_reference_lookalikes(j: int, k: int) -> bool:
    """a value whose own text contains character references (&amp; &lt; &#x27; ...) is escaped like any other text: its '&' becomes
    '&amp;' in every form, and unescaping the output gives the value back"""
    vi = 0
    for i in range(len(REF_POOL)):
        if j == i:
            vi = i
    keys = sorted(T)
    ki = 0
    for i in range(len(keys)):
        if k == i:
            ki = i
    with NoTracing():
        v = REF_POOL[vi]
        form = keys[ki]
        out = T[form](x=v)
        if out != expected(form, v):
            return False
        return html.unescape(T['entity'](x=v)) == v and T_PLAIN(x=v) == v


OBLIGATIONS.append(Ob('reference_lookalike_values', ob_reference_lookalikes, ['0 <= j < %d' % len(REF_POOL), '0 <= k < %d' % len(T)], timeout=tier(150, 400), path_timeout=60, data='-',
                      selectors='values %r through every quoting form' % REF_POOL, outside='other values that contain references',
                      stubs='render runs untraced once value and form are fixed on the path'))
