"""C02 - names resolve by documented source precedence; block bindings are scoped (engine E1)."""
from DocumentTemplate._DocumentTemplate import TemplateDict

from vlib.ob import Ob, tier
from harness.common import HTML, String, cooked

EXPLANATION = ('CrossHair executes the real String.__call__ / TemplateDict.getitem / InstanceDict and the block tags with symbolic '
               '"source i defines the name" bits (all 2^7 masks at once), symbolic stack contents, symbolic "block binds x" bits and '
               'symbolic payloads; oracles are the documented precedence order and lexical scoping.')


class Client:
    pass


# four pre-built templates for (construction kw?, construction mapping?) - initvars runs at construction time
SRC = '<dtml-var x>'
T6 = {
    (False, False): HTML(SRC),
    (True, False): HTML(SRC, None, x='ckw'),
    (False, True): HTML(SRC, {'x': 'cmap'}),
    (True, True): HTML(SRC, {'x': 'cmap'}, x='ckw'),
}
for _t in T6.values():
    _t.cook()
T6S = {k: String('%(x)s', ({'x': 'cmap'} if k[1] else None), **({'x': 'ckw'} if k[0] else {})) for k in T6}
for _t in T6S.values():
    _t.cook()


def expected6(kw, var, c2, c1, mp, ckw, cmap):
    if kw:
        return 'kw'
    if var:
        return 'var'
    if c2:
        return 'cl2'
    if c1:
        return 'cl1'
    if mp:
        return 'map'
    if ckw:
        return 'ckw'
    if cmap:
        return 'cmap'
    return None


def run6(table, kw, var, c2, c1, mp, ckw, cmap, tup):
    if ckw:
        t = table[(True, True)] if cmap else table[(True, False)]
    else:
        t = table[(False, True)] if cmap else table[(False, False)]
    t._vars = {}
    if var:
        t.var(x='var')
    o1, o2 = Client(), Client()
    if c1:
        o1.x = 'cl1'
    if c2:
        o2.x = 'cl2'
    client = (o1, o2) if tup else o2
    if not tup:
        # single client: only one object; use c2's bit for it and ignore c1
        pass
    mapping = {'x': 'map'} if mp else {}
    kws = {'x': 'kw'} if kw else {}
    try:
        try:
            out = t(client, mapping, **kws)
        except KeyError:
            out = None
    finally:
        t._vars = {}
    return out


def ob_six_tuple(kw: bool, var: bool, c2: bool, c1: bool, mp: bool, ckw: bool, cmap: bool) -> bool:
    return run6(T6, kw, var, c2, c1, mp, ckw, cmap, True) == expected6(kw, var, c2, c1, mp, ckw, cmap)


def ob_six_single(kw: bool, var: bool, c2: bool, mp: bool, ckw: bool, cmap: bool) -> bool:
    return run6(T6, kw, var, c2, False, mp, ckw, cmap, False) == expected6(kw, var, c2, False, mp, ckw, cmap)


def ob_six_epfs(kw: bool, var: bool, c2: bool, c1: bool, mp: bool, ckw: bool, cmap: bool) -> bool:
    return run6(T6S, kw, var, c2, c1, mp, ckw, cmap, True) == expected6(kw, var, c2, c1, mp, ckw, cmap)


def pickc(k):
    if k == 0:
        return '_'
    if k == 1:
        return 'a'
    if k == 2:
        return '0'
    if k == 3:
        return ' '
    return ''


def ob_underscore_mapping(k1: int, k2: int, k3: int) -> bool:
    """keys of the construction mapping starting with '_' are dropped, all others kept (keys are hashed by the code
    under test, so they are enumerated from a class-representative alphabet rather than left symbolic)"""
    k = pickc(k1) + pickc(k2) + pickc(k3)
    t = HTML('<dtml-var x>', {k: 1, 'x': 'v'})
    return (k in t.globals) == (k[:1] != '_') and t() == 'v'


def ob_stack(h1: bool, h2: bool, h3: bool, h4: bool, v1: int, v2: int, v3: int, v4: int, n: int) -> bool:
    """one step from an arbitrary stack of n <= 4 mappings: lookup is top-down, KeyError iff nobody defines the key"""
    md = TemplateDict()
    hs, vs = [h1, h2, h3, h4], [v1, v2, v3, v4]
    exp, found = None, False
    for i in range(4):
        if i < n:
            md._push({'x': vs[i]} if hs[i] else {'y': 0})
            if hs[i]:
                exp, found = vs[i], True
    try:
        got = md.getitem('x')
        ok = found and got == exp and md['x'] == exp
    except KeyError:
        ok = not found
    return ok and (('x' in md) == found) and (md.has_key('x') == found)


# ------------------------------------------------------------ scoping blocks, nesting depth 2
P = '[<dtml-var x missing="-"><dtml-if error_type>T</dtml-if>]'
OPEN = {
    'in': '<dtml-in s%s mapping>', 'with': '<dtml-with w%s mapping>', 'let': '<dtml-let x=l%s>',
    'try': '<dtml-try><dtml-var boom><dtml-except>', 'if': '<dtml-if c%s>',
    'inobj': '<dtml-in o%s>', 'withobj': '<dtml-with p%s>',
}
CLOSE = {'in': '</dtml-in>', 'with': '</dtml-with>', 'let': '</dtml-let>', 'try': '</dtml-try>', 'if': '</dtml-if>',
         'inobj': '</dtml-in>', 'withobj': '</dtml-with>'}
KINDS = ['in', 'with', 'let', 'try', 'if', 'inobj', 'withobj']


def src_nest(a, b, c=None):
    def op(k, tag):
        return OPEN[k] % tag if '%s' in OPEN[k] else OPEN[k]
    s = P + op(a, 'A') + P + op(b, 'B') + P
    if c:
        s += op(c, 'C') + P + CLOSE[c] + P
    return s + CLOSE[b] + P + CLOSE[a] + P


def boom():
    raise ValueError('boom')


class Obj:
    pass


def binding(kind, tag, bind):
    """namespace entries for one block and the value it binds x to (None = does not bind)"""
    val = kind + tag
    if kind == 'in':
        return {'s' + tag: [{'x': val} if bind else {'y': 0}]}, (val if bind else None)
    if kind == 'with':
        return {'w' + tag: {'x': val} if bind else {'y': 0}}, (val if bind else None)
    if kind == 'let':
        return {'l' + tag: val}, val
    if kind == 'try':
        return {'boom': boom}, None
    if kind == 'if':
        return {'c' + tag: 1}, None
    o = Obj()
    if bind:
        o.x = val
    if kind == 'inobj':
        return {'o' + tag: [o]}, (val if bind else None)
    return {'p' + tag: o}, (val if bind else None)


NEST = {}
for _a in KINDS:
    for _b in KINDS:
        NEST[_a + '_' + _b] = (_a, _b, None, cooked(src_nest(_a, _b)))
if tier(False, True):
    for _a in ('in', 'with', 'let', 'try'):
        for _b in ('in', 'with', 'let', 'try'):
            for _c in ('in', 'with', 'let', 'try'):
                NEST['%s_%s_%s' % (_a, _b, _c)] = (_a, _b, _c, cooked(src_nest(_a, _b, _c)))


def fmt(v, in_try):
    return '[' + (v if v is not None else '-') + ('T' if in_try else '') + ']'


def make_nest(key):
    a, b, c, t = NEST[key]

    def ob(outer: bool, ba: bool, bb: bool, bc: bool) -> bool:
        ns = {}
        if outer:
            ns['x'] = 'outer'
        na, va = binding(a, 'A', ba)
        nb, vb = binding(b, 'B', bb)
        ns.update(na)
        ns.update(nb)
        v0 = 'outer' if outer else None
        v1 = va if va is not None else v0
        v2 = vb if vb is not None else v1
        ta, tb = a == 'try', b == 'try'
        if c:
            nc, vc = binding(c, 'C', bc)
            ns.update(nc)
            v3 = vc if vc is not None else v2
            exp = (fmt(v0, False) + fmt(v1, ta) + fmt(v2, ta or tb) + fmt(v3, ta or tb or c == 'try') + fmt(v2, ta or tb)
                   + fmt(v1, ta) + fmt(v0, False))
        else:
            exp = fmt(v0, False) + fmt(v1, ta) + fmt(v2, ta or tb) + fmt(v1, ta) + fmt(v0, False)
        try:
            out = t(**ns)
        except Exception:
            return False
        return out == exp
    ob.__name__ = 'ob_nest_' + key
    return ob


# ------------------------------------------------------------ auto-call
T_SUB = HTML('<dtml-var callervar>|<dtml-var own>', own='subdefault')
T_SUB.cook()
T_CALLER = cooked('a<dtml-var f>b<dtml-with w mapping><dtml-var f></dtml-with>c')
T_EXPR = cooked('a<dtml-var "rec(f)">b<dtml-if "rec(f)">y</dtml-if>c')
T_EXPR_S = cooked('a%(var "rec(f)")sb', String) if False else None


class Logged:
    def __init__(self, log, payload):
        self.log, self.payload = log, payload

    def __call__(self):
        self.log.append('called')
        return self.payload


def ob_autocall(kind: int, payload: str, cv: str) -> bool:
    """kind 0: plain value, 1: callable, 2: document template"""
    log = []
    if kind == 0:
        f = payload
        exp_one = payload
    elif kind == 1:
        f = Logged(log, payload)
        exp_one = payload
    else:
        f = T_SUB
        exp_one = None
    out = T_CALLER(f=f, callervar=cv, own='callerown', w={'callervar': cv + '!'})
    if kind == 2:
        exp = 'a' + cv + '|subdefault' + 'b' + cv + '!|subdefault' + 'c'
        return out == exp
    return out == 'a' + exp_one + 'b' + exp_one + 'c' and log == (['called', 'called'] if kind == 1 else [])


def ob_uncalled_in_expr(kind: int, payload: str) -> bool:
    log = []
    seen = []
    if kind == 0:
        f = payload
    elif kind == 1:
        f = Logged(log, payload)
    else:
        f = T_SUB

    def rec(v):
        seen.append(v is f and not log)
        return ''
    out = T_EXPR(f=f, rec=rec)
    return out == 'abc' and seen == [True, True] and log == []


class CO:
    def __init__(self, **kw):
        self.__dict__.update(kw)


T_SUBCALL = cooked('<dtml-var x>|<dtml-let x=inner><dtml-var "sub(cl, _%s)">[<dtml-var x>]</dtml-let>|<dtml-var x>|<dtml-var sub>|<dtml-var x>' % '')
T_SUBCALL_KW = cooked('<dtml-var x>|<dtml-let x=inner><dtml-var "sub(cl, _, x=kwx)">[<dtml-var x>]</dtml-let>|<dtml-var x>')
T_SUB2 = HTML('{<dtml-var x>,<dtml-var own>}', own='subdefault')
T_SUB2.cook()


def ob_subtemplate_scoping(ntup: int, c1x: bool, c2x: bool, kw: bool) -> bool:
    """a template invoked from an expression with a client (single object, 1-, 2- or 3-tuple) and the caller's namespace sees
    the documented precedence inside, and EVERYTHING it pushed is gone afterwards: the caller's let-binding and outer
    binding show through again"""
    o1 = CO(**({'x': 'c1'} if c1x else {}))
    o2 = CO(**({'x': 'c2'} if c2x else {}))
    o3 = CO()
    if ntup == 0:
        cl = o2
    elif ntup == 1:
        cl = (o2,)
    elif ntup == 2:
        cl = (o1, o2)
    else:
        cl = (o3, o1, o2)
    inside = 'c2' if c2x else ('c1' if (c1x and ntup >= 2) else 'let')
    if kw:
        out = T_SUBCALL_KW(x='outer', inner='let', sub=T_SUB2, cl=cl, kwx='kw')
        return out == 'outer|{kw,subdefault}[let]|outer'
    out = T_SUBCALL(x='outer', inner='let', sub=T_SUB2, cl=cl)
    return out == 'outer|{%s,subdefault}[let]|outer|{outer,subdefault}|outer' % inside


class Raiser:
    def __init__(self, exc):
        self.exc = exc

    def __call__(self):
        raise self.exc


T_FALL = cooked('<dtml-with w mapping><dtml-var x></dtml-with>')
T_FALL_IN = cooked('<dtml-in seq mapping><dtml-var x></dtml-in>')


def ob_no_fallthrough(kind: int, inner: bool) -> bool:
    """the highest-priority source defining the name wins even when its value is a callable that raises a lookup-looking
    exception: the error propagates, a lower-priority definition is NOT used instead"""
    if kind == 0:
        exc = KeyError('zzz')
    elif kind == 1:
        exc = NameError('zzz')
    elif kind == 2:
        exc = KeyError('x')
    else:
        exc = AttributeError('x')
    try:
        if inner:
            out = T_FALL_IN(seq=[{'x': Raiser(exc)}], x='LOWER')
        else:
            out = T_FALL(w={'x': Raiser(exc)}, x='LOWER')
    except (KeyError, NameError, AttributeError) as e:
        return e is exc
    return False


OBLIGATIONS = [
    Ob('six_sources_tuple_client', ob_six_tuple, [], timeout=tier(100, 300), data='7 bools: kw, var, client2, client1, call mapping, construction kw, construction mapping define x',
       selectors='<dtml-var x>, client passed as a 2-tuple'),
    Ob('six_sources_single_client', ob_six_single, [], timeout=tier(100, 300), data='6 bools', selectors='<dtml-var x>, single client object'),
    Ob('six_sources_epfs', ob_six_epfs, [], timeout=tier(100, 300), data='7 bools', selectors='%(x)s (String class)'),
    Ob('underscore_keys_of_construction_mapping', ob_underscore_mapping, ['0 <= k1 <= 4', '0 <= k2 <= 4', '0 <= k3 <= 4'], timeout=tier(100, 300), data='-',
       selectors="key = up to 3 characters each selected from {'_','a','0',' ',''} (125 concrete keys by path forking); HTML(src, {key: 1})"),
    Ob('stack_top_down', ob_stack, ['0 <= n <= 4'], timeout=tier(100, 300), data='n <= 4 mappings, has-key bits h_i, unbounded int values v_i',
       selectors='real TemplateDict: getitem, __getitem__, __contains__, has_key', outside='stacks deeper than 4'),
    Ob('autocall_by_name', ob_autocall, ['0 <= kind <= 2', 'len(payload) <= 2', 'len(cv) <= 2'], timeout=tier(150, 400),
       data='payload, caller variable: str len <= 2; kind plain/callable/template', selectors='<dtml-var f> at top level and inside with'),
    Ob('uncalled_in_expr', ob_uncalled_in_expr, ['0 <= kind <= 2', 'len(payload) <= 2'], timeout=tier(100, 300),
       data='payload str len <= 2; kind', selectors='<dtml-var "rec(f)">, <dtml-if "rec(f)">'),
]
OBLIGATIONS.append(Ob('no_fallthrough_on_raising_callable', ob_no_fallthrough, ['0 <= kind <= 3'], timeout=tier(100, 300), data='exception kind raised by the callable value, block kind',
                      selectors='callable in a with / in binding raising KeyError / NameError / AttributeError; same name defined in the call keywords'))
OBLIGATIONS.append(Ob('subtemplate_scoping', ob_subtemplate_scoping, ['0 <= ntup <= 3'], timeout=tier(150, 400), data='client shape (object, 1-/2-/3-tuple), which clients define x, keyword argument bit',
                      selectors='sub-template called from an expression inside a let block; bindings after the call'))
for _k in NEST:
    OBLIGATIONS.append(Ob('nest_' + _k, make_nest(_k), [] if NEST[_k][2] else ['not bc'], timeout=tier(100, 300),
                          data='bools: outer x defined, block A binds x, block B binds x' + (', block C binds x' if NEST[_k][2] else ''),
                          selectors='nesting %s' % _k.replace('_', ' > '),
                          outside='nesting deeper than %d' % (3 if NEST[_k][2] else 2)))


# ------------------------------------------------------------ every tag that takes a NAME calls a callable value; expressions do not
SITES = {
    # site: (template, what the callable must return for payload p, expected output for payload p)
    'var': '<dtml-var f>',
    'let_name': '<dtml-let y=f><dtml-call "rec(y)"><dtml-call "rec(y)"><dtml-var y></dtml-let>',   # y is rendered once more by name
    'let_expr': '<dtml-let y="f"><dtml-call "rec(y)"></dtml-let>',
    'in_name': '<dtml-in f><dtml-call "rec(_[\'sequence-item\'])"></dtml-in>',
    'in_expr': '<dtml-in "f()"><dtml-call "rec(_[\'sequence-item\'])"></dtml-in>',
    'with_name': '<dtml-with f mapping><dtml-call "rec(k)"></dtml-with>',
    'with_expr': '<dtml-with "f()" mapping><dtml-call "rec(k)"></dtml-with>',
    'if_name': '<dtml-if f>Y<dtml-else>N</dtml-if>',
    'unless_name': '<dtml-unless f>U</dtml-unless>',
    'elif_name': '<dtml-if zero>Z<dtml-elif f>Y<dtml-else>N</dtml-if>',
    'call_name': '<dtml-call f>',
    'return_name': '<dtml-return f>',
    'return_expr': '<dtml-return "f">',
    'var_expr': '<dtml-var "rec(f)">',
    'call_expr': '<dtml-call "rec(f)">',
    'if_expr': '<dtml-if "rec(f)">Y</dtml-if>',
}
T_SITE = {k: cooked(v) for k, v in SITES.items()}
SITE_NAMES = sorted(SITES)


class Counted:
    def __init__(self, result):
        self.result, self.calls = result, 0

    def __call__(self):
        self.calls += 1
        return self.result


def make_site(site):
    t = T_SITE[site]

    def ob(p: int, truthy: bool) -> bool:
        """p: payload (unbounded int); truthy: for conditional sites, whether the callable's result is true"""
        seen = []
        by_name = site.endswith('_name') or site == 'var'
        if site.startswith('in_'):
            res = [p]
        elif site.startswith('with_'):
            res = {'k': p}
        elif site in ('if_name', 'unless_name', 'elif_name'):
            res = 1 if truthy else 0
        elif site in ('var', 'let_name'):
            res = 'R' if truthy else ''       # rendered to text: kept concrete (rendering a symbolic int stalls CrossHair)
        else:
            res = p
        f = Counted(res)

        def rec(v):
            seen.append(v)
            return ''
        out = t(f=f, rec=rec, zero=0)
        if site == 'var':
            return f.calls == 1 and seen == [] and out == res
        if site == 'let_name':
            # called once, at the let tag; the body sees the RESULT (also inside expressions), however often it is used
            return f.calls == 1 and len(seen) == 2 and seen[0] is res and seen[1] is res and out == res
        if site == 'let_expr':
            return f.calls == 0 and len(seen) == 1 and seen[0] is f and out == ''
        if site in ('in_name', 'in_expr', 'with_name', 'with_expr'):
            return f.calls == 1 and len(seen) == 1 and seen[0] is p and out == ''
        if site == 'if_name':
            return f.calls == 1 and out == ('Y' if truthy else 'N')
        if site == 'unless_name':
            return f.calls == 1 and out == ('' if truthy else 'U')
        if site == 'elif_name':
            return f.calls == 1 and out == ('Y' if truthy else 'N')
        if site == 'call_name':
            return f.calls == 1 and out == ''
        if site == 'return_name':
            return f.calls == 1 and out is p
        if site == 'return_expr':
            return f.calls == 0 and out is f
        if site in ('var_expr', 'call_expr'):
            return f.calls == 0 and len(seen) == 1 and seen[0] is f and out == ''
        if site == 'if_expr':
            return f.calls == 0 and len(seen) == 1 and seen[0] is f and out == ''
        return by_name and False
    ob.__name__ = 'ob_site_' + site
    return ob


for _s in SITE_NAMES:
    OBLIGATIONS.append(Ob('site_' + _s, make_site(_s), [], timeout=tier(100, 300), data='payload p (unbounded int), truth value of the result for conditional sites',
                          selectors='template %r: a callable namespace value f, call counter and recorder' % SITES[_s],
                          outside='tags not listed (tree, raise, comment)'))

T_SITE_DT = cooked('<dtml-let who="\'outer\'"><dtml-let g=sub who="\'inner\'"><dtml-call "rec(g)"></dtml-let></dtml-let>|<dtml-let who="\'w2\'"><dtml-with sub2 mapping><dtml-var k></dtml-with><dtml-in sub3><dtml-var sequence-item></dtml-in></dtml-let>')
T_DTSUB = HTML('hello <dtml-var who>')
T_DTSUB.cook()


class RenderWith:
    """namespace value with __render_with_namespace__ (what a DTML Method is): called with the CURRENT namespace"""

    def __init__(self, mk):
        self.mk = mk

    def __render_with_namespace__(self, md):
        return self.mk(md['who'])


def ob_site_templates(c1: int, c2: int) -> bool:
    """a document template bound by name in a let is rendered at the let tag, with the namespace current there (bindings to its
    left in the same tag are NOT yet visible... they are: let binds sequentially; bindings to its right are not)"""
    who2 = chr(97 + c1 % 26) + chr(97 + c2 % 26)
    seen = []
    out = T_SITE_DT(sub=T_DTSUB, rec=seen.append, sub2=RenderWith(lambda w: {'k': '<' + w + '>'}), sub3=RenderWith(lambda w: [w, w]))
    return seen == ['hello outer'] and out == '|<w2>w2w2'


OBLIGATIONS.append(Ob('site_templates', ob_site_templates, ['0 <= c1 < 26', '0 <= c2 < 26'], timeout=tier(100, 300), data='-',
                      selectors='document template / __render_with_namespace__ objects named in let, with and in: rendered with the namespace current at the tag'))


# ------------------------------------------------------------ dtml-in over mixed items: what each iteration pushes is popped again
class It:
    def __init__(self, x):
        self.x = x

    def __str__(self):
        return 'It'


T_MIXED = {
    'plain': cooked('<dtml-let x=lx><dtml-in seq>(<dtml-var x>)</dtml-in>[<dtml-var x>]</dtml-let>[<dtml-var x>][<dtml-var sequence-index missing=U>]'),
    'batch': cooked('<dtml-let x=lx><dtml-in seq size=9>(<dtml-var x>)</dtml-in>[<dtml-var x>]</dtml-let>[<dtml-var x>][<dtml-var sequence-index missing=U>]'),
    'nopush': cooked('<dtml-let x=lx><dtml-in seq no_push_item>(<dtml-var x>)</dtml-in>[<dtml-var x>]</dtml-let>[<dtml-var x>][<dtml-var sequence-index missing=U>]'),
    'mapping': cooked('<dtml-let x=lx><dtml-in mseq mapping>(<dtml-var x>)</dtml-in>[<dtml-var x>]</dtml-let>[<dtml-var x>][<dtml-var sequence-index missing=U>]'),
    'mapping_nopush_batch': cooked('<dtml-let x=lx><dtml-in mseq mapping no_push_item size=9>(<dtml-var x>)</dtml-in>[<dtml-var x>]</dtml-let>[<dtml-var x>][<dtml-var sequence-index missing=U>]'),
    'mapping_nopush': cooked('<dtml-let x=lx><dtml-in mseq mapping no_push_item>(<dtml-var x>)</dtml-in>[<dtml-var x>]</dtml-let>[<dtml-var x>][<dtml-var sequence-index missing=U>]'),
}


def make_mixed(variant):
    t = T_MIXED[variant]

    def ob(k1: int, k2: int, k3: int, n: int) -> bool:
        """item kinds per position: 0 object binding x, 1 str, 2 int, 3 (key, object) pair, 4 bytes, 5 object without x"""
        kinds = [k1, k2, k3][:n]
        seq, mseq, exp = [], [], ''
        for i, k in enumerate(kinds):
            tag = 'i%d' % i
            if k == 0:
                seq.append(It(tag)); inner = tag
            elif k == 1:
                seq.append('s'); inner = 'let'
            elif k == 2:
                seq.append(7); inner = 'let'      # ints are pushed as objects; they have no attribute x
            elif k == 3:
                seq.append(('key', It(tag))); inner = tag
            elif k == 4:
                seq.append(b'b'); inner = 'let'
            else:
                seq.append(It.__new__(It)); inner = 'let'
            mseq.append({'x': tag} if k in (0, 3) else {'y': 1})
            if variant in ('nopush', 'mapping_nopush', 'mapping_nopush_batch'):
                inner = 'let'
            exp += '(' + inner + ')'
        out = t(seq=seq, mseq=mseq, lx='let', x='kw')
        return out == exp + '[let][kw][U]'
    ob.__name__ = 'ob_mixed_' + variant
    return ob


for _v in T_MIXED:
    OBLIGATIONS.append(Ob('mixed_items_' + _v, make_mixed(_v), ['0 <= k1 <= 5', '0 <= k2 <= 5', '0 <= k3 <= 5', '0 <= n <= 3'], timeout=tier(150, 400),
                          data='-', selectors='dtml-in (%s) over up to 3 items whose kinds (object binding x / str / int / (key, object) / bytes / object without x) '
                          'are selected per position; x observed in every iteration, after </dtml-in> inside an enclosing let, and after the let' % _v,
                          outside='more than 3 items'))


# ------------------------------------------------------------ names that merely LOOK like sequence variables fall through to outer sources
T_LOOK = cooked('<dtml-in seq prefix=row><dtml-var row_data>,<dtml-var row_items>,<dtml-var row_value>,<dtml-var row_zzz>,<dtml-var row_item>;</dtml-in>')
T_LOOK2 = cooked('<dtml-in seq><dtml-var sequence-data>,<dtml-var sequence-zzz>,<dtml-var sequence-item>;</dtml-in>')
T_LOOK3 = cooked('<dtml-in seq><dtml-var mapping>,<dtml-var items>,<dtml-var data>,<dtml-var query_string missing=Q>;</dtml-in>|'
                 '<dtml-in mseq mapping size=3><dtml-var mapping>,<dtml-var items>;</dtml-in>')


def ob_lookalike_names(a: int, b: int) -> bool:
    """the in block binds the documented sequence variables only: other names carrying its prefix resolve from outside"""
    out = T_LOOK(seq=[a, b], row_data='D', row_items='I', row_value='V', row_zzz='Z')
    out2 = T_LOOK2(seq=[a], **{'sequence-data': 'D', 'sequence-zzz': 'Z'})
    # names the tag uses internally (its mapping flag, attributes of its variables object) are not bindings of the block either
    out3 = T_LOOK3(None, {'mapping': 'M', 'items': 'IT', 'data': 'DA'}, seq=[a], mseq=[{'k': b}])
    return out == 'D,I,V,Z,%d;D,I,V,Z,%d;' % (a, b) and out2 == 'D,Z,%d;' % a and out3 == 'M,IT,DA,Q;|M,IT;'


OBLIGATIONS.append(Ob('lookalike_names', ob_lookalike_names, ['0 <= a <= 1', '0 <= b <= 1'], timeout=tier(100, 300), data='two int elements 0..1',
                      selectors='outer variables named row_data / row_items / row_value / row_zzz (prefix=row) and sequence-data / sequence-zzz'))


# ---------------------------------------------------------------- wave 4
T_REC_DEFAULTS = HTML('<dtml-var x>:<dtml-if depth><dtml-let x="\'shadow\'" depth="depth - 1"><dtml-var me></dtml-let></dtml-if>', x='mine')
T_REC_DEFAULTS.cook()
T_REC_P = HTML('[<dtml-var x><dtml-if depth><dtml-with w mapping><dtml-var q></dtml-with></dtml-if>]', x='P')
T_REC_Q = HTML('<dtml-let depth="0"><dtml-var p></dtml-let>')
T_REC_P.cook()
T_REC_Q.cook()


def ob_recursive_defaults(depth: int, viakw: bool) -> bool:
    """a template invoked by name while it is ALREADY being rendered further up still lays its own defaults on top of the caller's
    namespace: bindings made between the two invocations (let, with, keywords) do not outrank them"""
    d = 0 if depth <= 0 else 1 if depth == 1 else 2
    out = T_REC_DEFAULTS(me=T_REC_DEFAULTS, depth=d)
    if out != 'mine:' * (d + 1):
        return False
    # indirect recursion P -> Q -> P with a with-binding of x in between
    out2 = T_REC_P(p=T_REC_P, q=T_REC_Q, depth=1, w={'x': 'W', 'q': T_REC_Q, 'p': T_REC_P})
    return out2 == '[P[P]]'


OBLIGATIONS.append(Ob('recursive_template_defaults', ob_recursive_defaults, ['0 <= depth <= 2'], timeout=tier(100, 300), data='recursion depth 0..2',
                      selectors='template with a construction-time default invoked by name from inside its own rendering (directly through let, indirectly through a second template and a with block)'))


class Counter:
    def __init__(self):
        self.n = 0

    def m(self):
        self.n += 1
        return self.n

    def plus(self, k):
        return self.n + k


T_METH = {
    'client': cooked('<dtml-var m>,<dtml-var m>,<dtml-var "m()">,<dtml-var "plus(10)">'),
    'with': cooked('<dtml-with o><dtml-var m>,<dtml-var m>,<dtml-var "m()">,<dtml-var "plus(10)"></dtml-with>'),
    'in': cooked('<dtml-in seq><dtml-var m>,<dtml-var m>,<dtml-var "m()">,<dtml-var "plus(10)"></dtml-in>'),
}


def ob_method_by_name_and_expr(site: int) -> bool:
    """a method of a client object / with object / in item: every by-name reference calls it afresh, an expression afterwards still gets
    the bound method itself (uncalled) - nothing is remembered from the by-name call"""
    o = Counter()
    if site == 0:
        out = T_METH['client'](o)
    elif site == 1:
        out = T_METH['with'](o=o)
    else:
        out = T_METH['in'](seq=[o])
    return out == '1,2,3,13'


OBLIGATIONS.append(Ob('method_by_name_then_expr', ob_method_by_name_and_expr, ['0 <= site <= 2'], timeout=tier(100, 300), data='-',
                      selectors='counter method of a client object / with object / in item referenced by name twice, then called from an expression'))


# ---------------------------------------------------------------- wave 5: names inside EXPRESSIONS follow the same rules, at every rendering
from crosshair.tracers import NoTracing      # noqa: E402

SRC_EXPR_NAMES = ('<dtml-var "_.has_key(\'x\') and x or \'none\'">|<dtml-if "flag and x">T<dtml-else>F</dtml-if>|'
                  '<dtml-in seq><dtml-var "_.has_key(\'x\') and x or \'none\'">,</dtml-in>|<dtml-let y="_.has_key(\'x\') and x or 0"><dtml-var y></dtml-let>')


class XO:
    pass


def ob_expr_names_history(s1: int, s2: int, s3: int) -> bool:
    """three renderings of ONE template object; in each, the name x used inside expressions is undefined / a call keyword / in the call
    mapping / an attribute of the client / an attribute of the loop items: every rendering resolves it by the documented precedence,
    whatever earlier renderings found (or did not find)"""
    srcs = [0 if s <= 0 else 1 if s == 1 else 2 if s == 2 else 3 if s == 3 else 4 for s in (s1, s2, s3)]
    with NoTracing():
        t = HTML(SRC_EXPR_NAMES)
        for n, src in enumerate(srcs):
            val = 'v%d' % n
            client, mapping, kw = None, {}, {}
            item = XO()
            if src == 1:
                kw['x'] = val
            elif src == 2:
                mapping['x'] = val
            elif src == 3:
                client = XO()
                client.x = val
            elif src == 4:
                item.x = val
            out = t(client, mapping, flag=1 if src in (1, 2, 3) else 0, seq=[item, XO()], **kw)
            top = val if src in (1, 2, 3) else 'none'
            in1 = val if src in (1, 2, 3, 4) else 'none'
            in2 = top
            exp = '%s|%s|%s,%s,|%s' % (top, 'T' if src in (1, 2, 3) else 'F', in1, in2, top if top != 'none' else '0')
            if out != exp:
                return False
        return True


OBLIGATIONS.append(Ob('expression_names_history', ob_expr_names_history, ['0 <= s1 <= 4', '0 <= s2 <= 4', '0 <= s3 <= 4'], timeout=tier(150, 400), path_timeout=60, data='-',
                      selectors='three renderings of one template; per rendering the name x (used only inside expressions: var, if, in body, let) comes from nowhere / keyword / mapping / client / loop item',
                      stubs='runs untraced once the sources are fixed on the path'))

T_ABN = cooked('<dtml-let x=ox><dtml-try><dtml-try>a<dtml-var b1><dtml-except><dtml-let x=ix>h<dtml-var b2></dtml-let><dtml-else><dtml-with w mapping>e<dtml-var b3></dtml-with></dtml-try>'
               '<dtml-except>H[<dtml-var x>|<dtml-var error_type>]</dtml-try>[<dtml-var x>|<dtml-var error_type missing=U>|<dtml-var q missing=U>]</dtml-let>[<dtml-var x missing=U>]')
T_ABN_SUB = HTML('<dtml-try><dtml-var b1><dtml-except><dtml-if ret><dtml-return rv></dtml-if><dtml-var b2></dtml-try>s', x='subdefault', q='subq')
T_ABN_SUB.cook()
T_ABN_CALLER = cooked('<dtml-let x=ox><dtml-try><dtml-var sub><dtml-except>H</dtml-try>[<dtml-var x>|<dtml-var error_type missing=U>|<dtml-var q missing=U>]</dtml-let>[<dtml-var x missing=U>]')


class Boom2(Exception):
    pass


def ob_abnormal_exit_scoping(r1: bool, r2: bool, r3: bool, ret: bool) -> bool:
    """bindings made by let / with / except sections / a sub-template's defaults end with their block ALSO when the block is left by an
    exception or by dtml-return: afterwards x, error_type and q resolve as before"""
    def mk(flag):
        def f():
            if flag:
                raise Boom2('b')
            return ''
        return f
    out = T_ABN(ox='outer', ix='inner', w={'x': 'wx', 'q': 'wq'}, b1=mk(r1), b2=mk(r2), b3=mk(r3))
    if r1:
        body = 'H[outer|Boom2]' if r2 else 'h'
    else:
        body = 'H[outer|Boom2]' if r3 else 'ae'
    if out != body + '[outer|U|U][U]':
        return False
    out2 = T_ABN_CALLER(ox='outer', sub=T_ABN_SUB, b1=mk(r1), b2=mk(r2), ret=ret, rv='RV')
    if r1:
        sub = 'RV' if ret else ('H' if r2 else 's')
    else:
        sub = 's'
    return out2 == sub + '[outer|U|U][U]'


OBLIGATIONS.append(Ob('abnormal_exit_scoping', ob_abnormal_exit_scoping, [], timeout=tier(100, 300), data='which of three stubs raise; whether the sub-template returns from inside its handler',
                      selectors='let / with / except sections / sub-template defaults left by exceptions raised inside handlers, else sections and by dtml-return; names observed afterwards'))
