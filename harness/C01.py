"""C01 - text outside tags is reproduced verbatim, in order, and rendering composes (engine E1)."""
from vlib.ob import Ob, tier
from harness.common import HTML, String, ref_escape

EXPLANATION = (
    'CrossHair cooks and renders real templates whose literal text is symbolic: (a) whole sources of any code points too short to '
    'hold a tag must render to themselves; (b/c) abstract templates (all block kinds, nesting, both HTML syntaxes) are printed '
    'with one literal slot made of a selectable fragment plus two symbolic code points (any value: blanks, tabs, newlines, tag '
    'opener characters) and the other slots drawn from a fragment set; a character-level oracle emits every literal verbatim, once '
    'per rendering of its enclosing body, and drops exactly one run [ \\t]*\\n directly after a block opening / continuation / '
    'closing tag; cooked literal blocks are compared too; (d) render(A + B) == render(A) + render(B) under the statement\'s own '
    'side condition.')
ASSUMES = ['"text outside tags" is scoped by an independent substring test: a literal piece may contain <, &, quotes, %, partial openers, '
           'but not a complete opener (<dtml-, </dtml-, <!--#, &dtml-, &dtml.); pieces that would complete a tag are outside the statement']

OPENERS = ('<dtml-', '</dtml-', '<!--#', '&dtml-', '&dtml.')


def has_opener(s):
    for o in OPENERS:
        if o in s:
            return True
    return False


def pick(k, n):
    lo, hi = 0, n
    while hi - lo > 1:
        mid = (lo + hi) // 2
        if k < mid:
            hi = mid
        else:
            lo = mid
    return lo


def strip_eol(s):
    """drop one run of blanks/tabs ending in a newline at the start of s (loop, no regex)"""
    i = 0
    while i < len(s) and (s[i] == ' ' or s[i] == '\t'):
        i += 1
    if i < len(s) and s[i] == '\n':
        return s[i + 1:]
    return s


# ------------------------------------------------------------------ abstract templates
# node: ('t', slot index) | ('var', name) | ('ent', name) | ('call', name) | (kind, arg, [sections]) with sections = list of (cont tag text | None, nodes)
def T(i):
    return ('t', i)


SHAPES = {
    'vars': [T(0), ('var', 'x'), T(1), ('ent', 'y'), T(2), ('call', 'f'), T(3)],
    'if_else': [T(0), ('if', 'c', [(None, [T(1)]), ('else', [T(2)])]), T(3)],
    'if_elif': [T(0), ('if', 'zero', [(None, [T(1)]), ('elif c', [T(2), ('var', 'x')]), ('else', [T(3)])]), T(4)],
    'in_else': [T(0), ('in', 'seq', [(None, [T(1), ('var', 'sequence-item'), T(2)]), ('else', [T(3)])]), T(4)],
    'with_let': [T(0), ('with', 'w mapping', [(None, [T(1)])]), T(2), ('let', 'a=x', [(None, [T(3), ('var', 'a')])]), T(4)],
    'try_except': [T(0), ('try', '', [(None, [T(1), ('var', 'x')]), ('except', [T(2)])]), T(3)],
    'try_finally': [T(0), ('try', '', [(None, [T(1)]), ('finally', [T(2)])]), T(3)],
    'try_raise': [T(0), ('try', '', [(None, [T(1), ('raise', 'KeyError', [(None, [T(2)])]), T(3)]), ('except', [T(4)])]), T(5)],
    'comment_unless': [T(0), ('comment', '', [(None, [T(1)])]), T(2), ('unless', 'c', [(None, [T(3)])]), T(4)],
    'nested': [T(0), ('in', 'seq', [(None, [T(1), ('if', 'c', [(None, [T(2)])]), T(3)])]), T(4)],
    'adjacent': [T(0), ('if', 'c', [(None, [('var', 'x')])]), ('in', 'seq', [(None, [T(1)])]), ('var', 'x'), T(2)],
    # wave 4: a tag-free body in a BATCHED loop (start beyond 1, window shorter than size) and try with except AND else
    'in_batch': [T(0), ('inb', 'seq start=2 size=3', [(None, [T(1)]), ('else', [T(2)])]), T(3), ('inb', 'seq size=5 orphan=0', [(None, [T(4)])]), T(5)],
    'try_except_else': [T(0), ('try', '', [(None, [T(1), ('if', 'c', [(None, [('raise', 'KeyError', [(None, [T(2)])])])]), T(3)]), ('except', [T(4)]), ('else', [T(5)])]), T(6)],
}

def slots_of(nodes):
    out = []
    for n in nodes:
        if n[0] == 't':
            out.append(n[1])
        elif len(n) == 3 and isinstance(n[2], list):
            for tag, body in n[2]:
                out += slots_of(body)
    return out


NSLOTS = {k: 1 + max(slots_of(v)) for k, v in SHAPES.items()}


def printer(nodes, slot, syn):
    out = []
    for n in nodes:
        if n[0] == 't':
            out.append(slot[n[1]])
        elif n[0] == 'var':
            out.append('<dtml-var %s>' % n[1] if syn == 'dtml' else '<!--#var %s-->' % n[1])
        elif n[0] == 'ent':
            out.append('&dtml-%s;' % n[1])
        elif n[0] == 'call':
            out.append('<dtml-call %s>' % n[1] if syn == 'dtml' else '<!--#call %s-->' % n[1])
        else:
            kind, arg, sections = n
            kind = 'in' if kind == 'inb' else kind
            a = (' ' + arg) if arg else ''
            out.append('<dtml-%s%s>' % (kind, a) if syn == 'dtml' else '<!--#%s%s-->' % (kind, a))
            for tag, body in sections:
                if tag is not None:
                    out.append('<dtml-%s>' % tag if syn == 'dtml' else '<!--#%s-->' % tag)
                out.append(printer(body, slot, syn))
            out.append('</dtml-%s>' % kind if syn == 'dtml' else '<!--#/%s-->' % kind)
    return ''.join(out)


class Env:
    def __init__(self, c, n):
        self.c, self.n = c, n
        self.vals = {'x': 'X<', 'y': 'Y&', 'a': 'X<', 'sequence-item': None}


def oracle(nodes, slot, env, after_block_tag=False, item=None):
    """character-level model.  after_block_tag: the previous thing emitted in the SOURCE was a block open/continuation/close tag"""
    out = []
    prev_block = after_block_tag
    for n in nodes:
        if n[0] == 't':
            s = slot[n[1]]
            if s == '':
                continue                    # an empty piece leaves the position "directly after the tag" unchanged
            out.append(strip_eol(s) if prev_block else s)
            prev_block = False
        elif n[0] == 'var':
            out.append(item if n[1] == 'sequence-item' else env.vals[n[1]])
            prev_block = False
        elif n[0] == 'ent':
            out.append(ref_escape(env.vals[n[1]]))
            prev_block = False
        elif n[0] == 'call':
            prev_block = False
        else:
            kind, arg, sections = n
            bodies = [b for t, b in sections]

            def body(i, it=item):
                return oracle(bodies[i], slot, env, True, it)
            if kind == 'if':
                conds = [arg] + [t.split()[1] for t, b in sections[1:] if t.startswith('elif')]
                done = False
                for i, cname in enumerate(conds):
                    truth = env.c if cname == 'c' else False
                    if truth:
                        out.append(body(i))
                        done = True
                        break
                if not done and sections[-1][0] == 'else':
                    out.append(body(len(sections) - 1))
            elif kind == 'unless':
                if not env.c:
                    out.append(body(0))
            elif kind == 'in':
                if env.n == 0:
                    if len(sections) > 1:
                        out.append(body(1))
                else:
                    for k in range(env.n):
                        out.append(body(0, 'i%d' % k))
            elif kind == 'inb':
                # batched: 'start=2 size=3' shows elements 2..min(n, 4); 'size=5' shows 1..min(n, 5); empty window -> else body / nothing
                first = 1 if 'start=2' in arg else 0
                last = min(env.n, first + (3 if 'size=3' in arg else 5))
                if env.n == 0 or first >= env.n:
                    if env.n == 0 and len(sections) > 1:
                        out.append(body(1))
                    elif first >= env.n and env.n > 0:
                        for k in range(env.n - 1, env.n):
                            out.append(body(0, 'i%d' % k))      # a start beyond the end shows the last element
                else:
                    for k in range(first, last):
                        out.append(body(0, 'i%d' % k))
            elif kind in ('with', 'let'):
                out.append(body(0))
            elif kind == 'comment':
                pass
            elif kind == 'raise':
                raise KeyError(body(0))
            elif kind == 'try':
                if sections[-1][0] == 'finally':
                    out.append(body(0))
                    out.append(body(1))
                else:
                    try:
                        b0 = body(0)
                    except KeyError:
                        out.append(body(1))
                    else:
                        out.append(b0)
                        if len(sections) > 2 and sections[2][0] == 'else':
                            out.append(body(2))      # the else section: only when the body raised nothing
            prev_block = True
    return ''.join(out)


FR = ['', ' ', '\n', ' \t\n', '\n\n', 'x', ' x\n', '<', '&dt', '"', '<!--', '%(', '\t']


def namespace(env):
    return dict(x='X<', y='Y&', c=1 if env.c else 0, zero=0, seq=['i%d' % k for k in range(env.n)], w={'q': 1}, f=lambda: 'CALLED')


def literal_blocks(blocks, out):
    for b in blocks:
        if isinstance(b, str):
            out.append(b)
        elif isinstance(b, tuple):
            for x in b[1:]:
                if isinstance(x, list):
                    literal_blocks(x, out)
        else:
            o = getattr(b, '__self__', b)
            for a in ('section', 'elses', 'finallyBlock', 'elseBlock'):
                v = getattr(o, a, None)
                if isinstance(v, list):
                    literal_blocks(v, out)
            for h in getattr(o, 'handlers', None) or []:
                literal_blocks(h[1], out)
    return out


def make_slot(shape, sym_slot, syn, frag, other):
    nodes = SHAPES[shape]
    ns_ = NSLOTS[shape]

    def ob(c1: int, c2: int, c: bool, n: int) -> bool:
        piece = frag + chr(c1) + chr(c2)
        if has_opener(piece):
            return True
        slot = [other] * ns_
        slot[sym_slot] = piece
        env = Env(c, 2 if n else 0)
        src = printer(nodes, slot, syn)
        t = HTML(src)
        try:
            got = t(**namespace(env))
        except KeyError as e:
            got = 'KeyError:' + str(e.args[0])
        try:
            want = oracle(nodes, slot, env)
        except KeyError as e:
            want = 'KeyError:' + str(e.args[0])
        return got == want
    ob.__name__ = 'ob_slot_%s_%d_%s' % (shape, sym_slot, syn)
    return ob


def ob_raw_html(s: str) -> bool:
    """a source too short to contain a tag renders to itself and compiles to itself as one literal block"""
    t = HTML(s)
    return t() == s and t._v_blocks == ([s] if s else [])


def ob_raw_string(s: str) -> bool:
    t = String(s)
    return t() == s


def ob_notag_html(c1: int, c2: int, c3: int, kf: int, kg: int) -> bool:
    kg = kf + 3
    """fragments that look like the beginning of tags plus symbolic characters, without a complete opener: identity"""
    s = FR[pick(kf, len(FR))] + chr(c1) + chr(c2) + FR[(pick(kf, len(FR)) + 3) % len(FR)] + chr(c3)
    if has_opener(s):
        return True
    t = HTML(s)
    return t() == s


COMP_A = {'var': 'A<dtml-var x>', 'ifblock': 'A<dtml-if c>t<dtml-else>e</dtml-if>', 'inblock': 'A<dtml-in seq>i</dtml-in>', 'entity': 'A&dtml-y;'}
COMP_B = {'var': '<dtml-var x>B', 'inblock': '<dtml-in seq><dtml-var sequence-item>,</dtml-in>B', 'tryblock': '<dtml-try>t<dtml-except>x</dtml-try>B', 'text': 'B'}


def make_compose(ka, kb, pre_tail=''):
    """render(A + B) == render(A) + render(B) unless a tag straddles the seam or the one dropped line end after A's last
    block tag straddles it (the statement's exception)"""
    a0, b0 = COMP_A[ka], COMP_B[kb]
    a_block = ka in ('ifblock', 'inblock')

    def ob(c1: int, c3: int, c: bool) -> bool:
        tail = pre_tail + chr(c1)
        head = chr(c3)
        # three symbolic characters between A's closing '>' / ';' and B's first character cannot complete a tag opener
        if a_block and strip_eol(tail + head) != tail + head and strip_eol(tail) == tail:
            return True
        ns = dict(x='X<', y='Y&', c=1 if c else 0, seq=['i0', 'i1'])
        A, B = a0 + tail, head + b0
        return HTML(A + B)(**ns) == HTML(A)(**ns) + HTML(B)(**ns)
    ob.__name__ = 'ob_compose_%s_%s' % (ka, kb)
    return ob


def ob_compose_after_block(c1: int, c2: int, kf: int, c: bool) -> bool:
    """A ends with a block tag: composition holds unless B starts with a line end (blanks then newline)"""
    head = ['', ' ', '\t ', 'x'][pick(kf, 4)] + chr(c1) + chr(c2)
    if has_opener(head):
        return True
    if strip_eol(head) != head:
        return True                      # the statement's own exception
    A = 'a<dtml-if c>t</dtml-if>'
    B = head + '<dtml-var x>'
    ns = dict(c=1 if c else 0, x='X')
    return HTML(A + B)(**ns) == HTML(A)(**ns) + HTML(B)(**ns)


BOGUS = {'ent_dash': '&dtml-', 'ent_dot': '&dtml.', 'dtml': '<dtml-', 'dtml_close': '</dtml-', 'ssi': '<!--#', 'dtml_noend': '<dtml-', 'ssi_noend': '<!--#'}


def make_bogus(key):
    """text that merely looks like the beginning of a tag is literal text: it is emitted verbatim and real tags after it
    are still rendered"""
    opener = BOGUS[key]

    def ob(c1: int, c2: int, km: int) -> bool:
        x = chr(c1) + chr(c2)
        if ';' in x or '"' in x:
            return True
        if key.startswith('ent'):
            mid = [' in ', ' ', '+'][pick(km, 3)]                 # a character no entity name can contain, before the next ';'
        else:
            if c1 <= 32 or ('a' <= chr(c1) <= 'z') or ('A' <= chr(c1) <= 'Z') or chr(c1) == '/':
                return True                                      # could be a real tag name: outside this obligation
            if '>' in x:
                return True
            mid = [' in >', '>', ' a="b">'][pick(km, 3)] if not key.endswith('noend') else [' in ', '', ' a="b" '][pick(km, 3)]
            if key == 'ssi':
                mid = mid.replace('>', '-->')
        if key.endswith('noend'):
            src = 'A' + opener + x + mid + '&dtml-y;Z'            # no '>' / '-->' anywhere after the opener
            want = 'A' + opener + x + mid + 'Y&amp;Z'
        else:
            src = 'A' + opener + x + mid + '<dtml-var x>; &dtml-y;Z'
            want = 'A' + opener + x + mid + 'X<; Y&amp;Z'
        return HTML(src)(x='X<', y='Y&') == want
    ob.__name__ = 'ob_bogus_' + key
    return ob


def ob_cross_syntax(c1: int, c2: int, first_string: bool) -> bool:
    """the same source text compiled by templates of BOTH syntaxes in one process: text that is a tag in one syntax is plain
    text in the other (compiling one template never influences another)"""
    x = chr(c1) + chr(c2)
    if has_opener(x) or '%' in x or '(' in x or ')' in x:
        return True
    src1 = 'T' + x + ': %(n)s items'          # a tag for String, literal text for HTML
    src2 = 'U' + x + '<dtml-var n>&dtml-n;'   # tags for HTML, literal text for String
    if first_string:
        a = String(src1)(n=5)
        b = HTML(src1)(n=5)
        c = HTML(src2)(n=7)
        d = String(src2)(n=7)
    else:
        b = HTML(src1)(n=5)
        a = String(src1)(n=5)
        d = String(src2)(n=7)
        c = HTML(src2)(n=7)
    return a == 'T' + x + ': 5 items' and b == src1 and c == 'U' + x + '77' and d == src2


def explain(obname, args):
    return ''


OBLIGATIONS = []
NR = tier(5, 6)
OBLIGATIONS.append(Ob('raw_html_identity', ob_raw_html, ['len(s) <= %d' % NR], timeout=tier(280, 1200), data='whole source s: any code points, len <= %d (no complete tag fits)' % NR, selectors='HTML syntax',
                      outside='raw sources longer than %d' % NR))
OBLIGATIONS.append(Ob('raw_string_identity', ob_raw_string, ['len(s) <= %d' % tier(3, 4)], timeout=tier(280, 1200), stubs='relib-escape',
                      data='whole source s: any code points, len <= %d' % tier(3, 4), selectors='%(..) syntax'))
CP = ['0 <= c1 <= 0x10FFFF', '0 <= c2 <= 0x10FFFF', '0 <= c3 <= 0x10FFFF', '0 <= c4 <= 0x10FFFF']
OBLIGATIONS.append(Ob('notag_fragments', ob_notag_html, CP[:3] + ['0 <= kf < %d' % len(FR), '0 <= kg < %d' % len(FR)], timeout=tier(280, 1200),
                      data='3 symbolic code points between near-tag fragments', selectors='fragments %r' % FR))
QUICK_SLOTS = {'vars': (1, 3), 'if_else': (1, 2, 3), 'in_else': (1, 2, 4), 'with_let': (1, 2), 'try_except': (1, 3), 'try_finally': (2,), 'try_raise': (3, 5),
               'comment_unless': (2, 3), 'nested': (2, 3), 'adjacent': (1,), 'if_elif': (2, 4), 'in_batch': (1, 4), 'try_except_else': (3, 4, 5)}
FRQ = ['', ' ', '\t \n', 'x', '\n\n', '<']
_cnt = 0
for _shape in SHAPES:
    slots = range(NSLOTS[_shape]) if tier(False, True) else QUICK_SLOTS[_shape]
    for _sl in slots:
        for _syn in (('dtml', 'ssi') if tier(False, True) or _sl == QUICK_SLOTS[_shape][0] else ('dtml',)):
            frs = [FRQ[_cnt % len(FRQ)], FRQ[(_cnt + 3) % len(FRQ)]] if tier(False, True) else [FRQ[_cnt % len(FRQ)]]
            for _fi, _fr in enumerate(frs):
                _other = FRQ[(_cnt + 2 * _fi + 1) % len(FRQ)]
                _cnt += 1
                OBLIGATIONS.append(Ob('slot_%s_%d_%s%s' % (_shape, _sl, _syn, '' if len(frs) == 1 else '_f%d' % _fi), make_slot(_shape, _sl, _syn, _fr, _other),
                                      CP[:2] + ['0 <= n <= 1'], timeout=tier(280, 900), path_timeout=60,
                                      data='literal slot %d = %r + 2 symbolic code points (any value); truth value c; sequence empty / 2 items' % (_sl, _fr),
                                      selectors='shape %s, %s syntax; all other slots %r' % (_shape, _syn, _other),
                                      outside='more than one symbolic slot at a time; more than 2 symbolic characters per slot; nesting deeper than 2'))
for _a, _b, _pt in (('var', 'var', ''), ('ifblock', 'var', ''), ('ifblock', 'var', ' \t'), ('inblock', 'inblock', '\t'), ('entity', 'tryblock', ''), ('ifblock', 'text', ' '), ('var', 'inblock', ' ')):
    OBLIGATIONS.append(Ob('compose_%s_%s%s' % (_a, _b, '_b%d' % len(_pt) if _pt else ''), make_compose(_a, _b, _pt), ['0 <= c1 <= 0x10FFFF', '0 <= c3 <= 0x10FFFF'], timeout=tier(280, 1200), path_timeout=60,
                          data='last character of A and first character of B: symbolic code points (any value)', selectors='A = %r + %r + c1, B = c3 + %r' % (COMP_A[_a], _pt, COMP_B[_b]),
                          outside='seams with more than 2 symbolic characters'))
OBLIGATIONS.append(Ob('compose_after_block', ob_compose_after_block, CP[:2] + ['0 <= kf < 4'], timeout=tier(280, 1200), data='start of B: fragment + 2 symbolic code points', selectors='A ends with </dtml-if>'))
for _k in BOGUS:
    OBLIGATIONS.append(Ob('bogus_' + _k, make_bogus(_k), CP[:2] + ['0 <= km < 3'], timeout=tier(280, 1200), path_timeout=60,
                          data='two symbolic code points (any value) right after the opener text', selectors='opener %r that does not start a tag (%s), followed by real tags' % (BOGUS[_k], _k),
                          outside='openers followed by text that does form a tag (covered by the slot obligations)'))
OBLIGATIONS.append(Ob('cross_syntax', ob_cross_syntax, CP[:2], timeout=tier(250, 900), stubs='relib-escape', data='two symbolic code points in the source; order of compilation',
                      selectors='one source text compiled as String and as HTML in the same process'))


# ---------------------------------------------------------------- wave 3: text that merely LOOKS like a %( tag (String syntax)
def is_tag_name_char(ch):
    return ('a' <= ch <= 'z') or ('A' <= ch <= 'Z') or ('0' <= ch <= '9') or ch in '_/.-'


def make_bogus_string(key):
    """%(name<c>...)s is a tag only when <c> is one of the characters up to blank that may separate name and arguments (or the tag
    ends there); with any other character it is plain text, emitted verbatim, and real tags after it are still rendered"""
    def ob(c1: int, c2: int) -> bool:
        a, b = chr(c1), chr(c2)
        if c1 <= 32 or is_tag_name_char(a) or a == ')' or a == '"' or a == '%':
            return True                   # a real separator / longer name / end of tag: outside this obligation
        if b == ')' or b == '"' or b == '%' or b == '(':
            return True
        if key == 'sep':
            src, want = 'A%(var' + a + 'x)sZ%(y)s', 'A%(var' + a + 'x)sZY'
        elif key == 'mod':
            src, want = 'A%(x' + a + 'upper)sZ%(y)s', 'A%(x' + a + 'upper)sZY'
        elif key == 'two':
            src, want = 'A%(x' + a + b + ')sZ%(y)s', 'A%(x' + a + b + ')sZY'
        elif key == 'block':
            src, want = 'A%(if' + a + 'c)[T%(if)]Z%(y)s', None
        else:
            src, want = 'A%(' + a + 'x)sZ%(y)s', 'A%(' + a + 'x)sZY'
        t = String(src)
        if want is None:
            # the opener is not a tag, so the closer has nothing to close: ParseError is the documented outcome
            try:
                t.cook()
            except Exception as e:
                return type(e).__name__ == 'ParseError'
            return False
        return t(x='X', y='Y', c=1) == want
    ob.__name__ = 'ob_bogus_string_' + key
    return ob


for _k in ('sep', 'mod', 'two', 'block', 'name'):
    OBLIGATIONS.append(Ob('bogus_string_' + _k, make_bogus_string(_k), ['0 <= c1 <= 0x10FFFF', '0 <= c2 <= 0x10FFFF'], timeout=tier(200, 600), stubs='relib-escape',
                          data='1-2 code points (any value) at the place where a %( tag would need a separator',
                          selectors='String syntax: %(var<c>x)s, %(x<c>upper)s, %(x<c1><c2>)s, %(if<c>c)[..%(if)], %(<c>x)s followed by a real tag',
                          outside='more than two symbolic code points'))
