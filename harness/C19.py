"""C19 - bytes in mixed output decode with the template encoding; str() is safe (engine E1)."""
from crosshair.tracers import NoTracing

from DocumentTemplate.ustr import ustr
from vlib.ob import Ob, tier
from harness.common import HTML, String, ref_escape

EXPLANATION = (
    'CrossHair renders multi-piece templates created with an explicit encoding and inserts a symbolic text s once as str and once '
    'as s.encode(encoding) through every insertion path (top level, in / in-else / if / unless / try / except / let / with bodies, '
    'nested, sub-template) and form (plain, entity, html_quote + other option, fmt=html-quote): both renderings must be the same '
    'str. ustr(): symbolic ints/containers/objects/exceptions against the documented str() form; it raises only when __str__ '
    'itself misbehaves.')

PATHS = {
    'top': 'a%sb',
    'in': '<dtml-in seq>a%sb</dtml-in>',
    'in_else': '<dtml-in empty>n<dtml-else>a%sb</dtml-in>',
    'in_batch_else': '<dtml-in empty size=3>n<dtml-else>a%sb</dtml-in>',
    'in_mapping': '<dtml-in maps mapping>a%s<dtml-var k></dtml-in>',
    'if': '<dtml-if one>a%sb<dtml-else>c</dtml-if>',
    'if_else': '<dtml-if zero>c<dtml-elif zero>d<dtml-else>a%sb</dtml-if>',
    'unless': '<dtml-unless zero>a%sb</dtml-unless>',
    'try': '<dtml-try>a%sb<dtml-except>c</dtml-try>',
    'except': '<dtml-try><dtml-var "1/zero"><dtml-except>a%sb</dtml-try>',
    'try_else': '<dtml-try>c<dtml-except>d<dtml-else>a%sb</dtml-try>',
    'finally': '<dtml-try>c<dtml-finally>a%sb</dtml-try>',
    'let': '<dtml-let y=x>a<dtml-var y>b</dtml-let>%s',
    'with': '<dtml-with w mapping>a%sb</dtml-with>',
    'nested': '<dtml-in seq><dtml-if one><dtml-with w mapping>a%sb</dtml-with></dtml-if></dtml-in>',
    'sub': 'a<dtml-var sub>b%s',
}
FORMS = {
    'plain': '<dtml-var x>',
    'entity': '&dtml-x;',
    'hq_null': '<dtml-var x html_quote null="">',
    'fmt_hq': '<dtml-var x fmt=html-quote>',
    'expr': '<dtml-var "x">',
}
QUOTING = {'entity', 'hq_null', 'fmt_hq'}
ENCS = ['utf-8', 'latin-1', 'cp1252', 'utf-16']


def build(enc):
    out = {}
    with NoTracing():
        for p, shell in PATHS.items():
            for f, tag in FORMS.items():
                src = shell % tag
                t = HTML(src, encoding=enc, sub=HTML('s<dtml-var x>', encoding=enc))
                t.cook()
                out[(p, f)] = t
    return out


T = {enc: build(enc) for enc in ENCS}
NS = dict(seq=[1], empty=[], maps=[{'k': 'K'}], one=1, zero=0, w={'q': 1})
KEYS = sorted(T['utf-8'])


def expected(p, f, s):
    v = ref_escape(s) if f in QUOTING else s
    shell = PATHS[p]
    if p == 'in_mapping':
        return 'a' + v + 'K'
    if p == 'let':
        return 'a' + s + 'b' + v
    if p == 'sub':
        return 'as' + s + 'b' + v
    if p == 'finally':
        return 'ca' + v + 'b'
    if p == 'try_else':
        return 'ca' + v + 'b'
    return 'a' + v + 'b'


def pick(k, n):
    lo, hi = 0, n
    while hi - lo > 1:
        mid = (lo + hi) // 2
        if k < mid:
            hi = mid
        else:
            lo = mid
    return lo


def make_sym(enc, p, f):
    t = T[enc][(p, f)]

    def ob(s: str) -> bool:
        if enc == 'latin-1':
            for ch in s:
                if ord(ch) > 255:
                    return True
        else:
            for ch in s:
                if 0xD800 <= ord(ch) <= 0xDFFF:
                    return True
        b = s.encode(enc)
        o1 = t(x=s, **NS)
        o2 = t(x=b, **NS)
        return type(o2) is str and o1 == o2 and o1 == expected(p, f, s)
    ob.__name__ = 'ob_%s_%s_%s' % (enc.replace('-', ''), p, f)
    return ob


POOL = ['', 'a', '<', '&é', 'é', 'ÿ', '€', 'ß<"', 'Ω', '日本', '\U0001F600', "'", 'a€b', '\x80' if False else 'Œ', 'ñ>']


def make_pool(enc):
    def ob(k: int, j: int) -> bool:
        p, f = KEYS[pick(k, len(KEYS))]
        s = POOL[pick(j, len(POOL))]
        with NoTracing():
            try:
                b = s.encode(enc)
            except UnicodeEncodeError:
                return True
            t = T[enc][(p, f)]
            o1 = t(x=s, **NS)
            o2 = t(x=b, **NS)
            return type(o2) is str and o1 == o2 and o1 == expected(p, f, s)
    ob.__name__ = 'ob_pool_' + enc.replace('-', '')
    return ob


# ------------------------------------------------------------------ ustr / non-string values
class StrOK:
    def __init__(self, v):
        self.v = v

    def __str__(self):
        return self.v


class Plain:
    pass


class MyErr(Exception):
    pass


class ErrStr(Exception):
    def __str__(self):
        return 'custom:' + str(self.args[0])


NUMS = [-7, 0, 5, 42, 1000]


def ob_ustr_ints(a: int, b: int, kind: int) -> bool:
    a, b = NUMS[pick(a, 5)], NUMS[pick(b, 5)]
    if kind == 0:
        v, want = a, str(a)
    elif kind == 1:
        v, want = [a, b], '[' + str(a) + ', ' + str(b) + ']'
    elif kind == 2:
        v, want = (a,), '(' + str(a) + ',)'
    elif kind == 3:
        v, want = {'k': a}, "{'k': " + str(a) + '}'
    elif kind == 4:
        v, want = None, 'None'
    elif kind == 5:
        v, want = a > b, 'True' if a > b else 'False'
    else:
        v, want = Plain, str(Plain)
    return ustr(v) == want and str(v) == want


T_INS = HTML('a<dtml-var x>|&dtml-x;')
T_INS.cook()


def ob_insert_values(a: int, kind: int) -> bool:
    """non-string values are inserted as their str() form"""
    a = NUMS[pick(a, 5)]
    if kind == 0:
        v = a
    elif kind == 1:
        v = [a]
    elif kind == 2:
        v = None
    else:
        v = (a, 'x')
    want = str(v)
    return T_INS(x=v) == 'a' + want + '|' + ref_escape(want)


def ob_ustr_str_method(s: str, kind: int) -> bool:
    """objects with __str__: str result passes, bytes result passes as bytes, anything else -> ValueError (and only then)"""
    if kind == 0:
        return ustr(StrOK(s)) == s
    if kind == 1:
        for ch in s:
            if 0xD800 <= ord(ch) <= 0xDFFF:
                return True
        b = s.encode('utf-8')
        return ustr(StrOK(b)) == b
    if kind == 2:
        try:
            ustr(StrOK(len(s)))
        except ValueError:
            return True
        return False
    return ustr(s) is s or ustr(s) == s


def ob_ustr_exceptions(j: int, n: int, kind: int) -> bool:
    """exception objects are inserted as their message"""
    n = NUMS[pick(n, 5)]
    s = POOL[pick(j, len(POOL))]
    if kind == 0:
        return ustr(ValueError()) == '' and ustr(MyErr()) == ''
    if kind == 1:
        return ustr(ValueError(s)) == s and ustr(MyErr(s)) == s and ustr(KeyError(s)) == s
    if kind == 2:
        return ustr(ValueError(n)) == str(n)
    if kind == 3:
        return ustr(ValueError(s, n)) == str((s, n))
    if kind == 4:
        for ch in s:
            if 0xD800 <= ord(ch) <= 0xDFFF:
                return True
        b = s.encode('utf-8')
        return ustr(ValueError(b)) == b            # a bytes message stays bytes (decoded with the template encoding on insertion)
    if kind == 5:
        return ustr(ValueError(StrOK(s))) == s     # the message object's own __str__
    return ustr(ErrStr(s)) == s                    # documented: the message (args[0]), not a custom __str__


T_EXC = {enc: HTML('a<dtml-var e>|&dtml-e;|<dtml-var e html_quote null="">|<dtml-try><dtml-raise ValueError>m</dtml-raise><dtml-except>[<dtml-var error_value>]</dtml-try>', encoding=enc) for enc in ('utf-8', 'latin-1')}
for _t in T_EXC.values():
    _t.cook()


def ob_insert_exception_bytes(j: int, latin: bool) -> bool:
    """an exception whose message is bytes is inserted as text decoded with the template encoding"""
    s = POOL[pick(j, len(POOL))]
    enc = 'latin-1' if latin else 'utf-8'
    with NoTracing():
        try:
            b = s.encode(enc)
        except UnicodeEncodeError:
            return True
        t = T_EXC[enc]
        want = 'a' + s + '|' + ref_escape(s) + '|' + ref_escape(s) + '|[m]'
        return t(e=ValueError(b)) == want and t(e=ValueError(s)) == want


T_ALLB = {enc: [HTML(src, encoding=enc) for src in ('<dtml-var a><dtml-var b>', '<dtml-var a><dtml-if one><dtml-var b></dtml-if>', '<dtml-in seq><dtml-var a><dtml-var b></dtml-in>',
                                                    '<dtml-var a>&dtml-b;', '<dtml-var a><dtml-var b><dtml-var a>')] for enc in ('utf-8', 'latin-1')}
for _l in T_ALLB.values():
    for _t in _l:
        _t.cook()


def ob_all_bytes_pieces(j: int, k: int, latin: bool) -> bool:
    """whenever a rendering consists of more than one piece the result is text - also when every piece is a bytes value"""
    s1, s2 = POOL[pick(j, len(POOL))], POOL[pick(k, len(POOL))]
    enc = 'latin-1' if latin else 'utf-8'
    if not s1 or not s2:
        return True            # an empty value contributes no piece: a single-piece rendering may stay bytes
    with NoTracing():
        try:
            b1, b2 = s1.encode(enc), s2.encode(enc)
        except UnicodeEncodeError:
            return True
        wants = [s1 + s2, s1 + s2, s1 + s2, s1 + ref_escape(s2), s1 + s2 + s1]
        for t, want in zip(T_ALLB[enc], wants):
            out = t(a=b1, b=b2, one=1, seq=[1])
            if type(out) is not str or out != want:
                return False
        return True


def explain(obname, args):
    return ''


OBLIGATIONS = []
N = tier(2, 3)
SYM = [('top', 'plain'), ('top', 'entity'), ('top', 'hq_null'), ('top', 'fmt_hq'), ('in', 'plain'), ('in_else', 'plain'), ('in_else', 'entity'),
       ('if', 'plain'), ('try', 'plain'), ('except', 'entity'), ('let', 'plain'), ('with', 'hq_null'), ('nested', 'plain'), ('sub', 'plain'), ('in_batch_else', 'plain'),
       ('in_mapping', 'fmt_hq')]
for _enc in ('utf-8', 'latin-1'):
    for _p, _f in SYM:
        OBLIGATIONS.append(Ob('%s_%s_%s' % (_enc.replace('-', ''), _p, _f), make_sym(_enc, _p, _f), ['len(s) <= %d' % N], timeout=tier(200, 900),
                              data='text s: any str (encodable), len <= %d, inserted as str and as s.encode(%s)' % (N, _enc),
                              selectors='template encoding %s, path %s, form %s' % (_enc, _p, _f), outside='texts longer than %d' % N))
for _enc in ENCS:
    OBLIGATIONS.append(Ob('pool_' + _enc.replace('-', ''), make_pool(_enc), ['0 <= k < %d' % len(KEYS), '0 <= j < %d' % len(POOL)], timeout=tier(280, 900), path_timeout=60,
                          data='-', selectors='every path x form (%d templates) x %d pool texts, encoding %s (untraced per path)' % (len(KEYS), len(POOL), _enc),
                          stubs='render runs untraced once template and text are fixed on the path'))
OBLIGATIONS.append(Ob('ustr_builtin_values', ob_ustr_ints, ['0 <= kind <= 6', '0 <= a < 5', '0 <= b < 5'], timeout=tier(250, 900), data='ints picked from %r' % NUMS, selectors='int, list, tuple, dict, None, bool, class'))
OBLIGATIONS.append(Ob('insert_values', ob_insert_values, ['0 <= kind <= 3', '0 <= a < 5'], timeout=tier(250, 900), data='int picked from %r' % NUMS, selectors='int / list / None / tuple inserted plainly and by entity'))
OBLIGATIONS.append(Ob('ustr_str_method', ob_ustr_str_method, ['len(s) <= 2', '0 <= kind <= 3'], timeout=tier(250, 900), data='s any str len <= 2', selectors='__str__ returning str / bytes / int; plain str'))
OBLIGATIONS.append(Ob('ustr_exceptions', ob_ustr_exceptions, ['0 <= j < %d' % len(POOL), '0 <= kind <= 6', '0 <= n < 5'], timeout=tier(250, 900), data='message picked from the text pool (exception constructors are C code: a symbolic str would be realised), int picked from %r' % NUMS, selectors='exceptions with 0/1/2 args, bytes / object messages, custom __str__'))
OBLIGATIONS.append(Ob('insert_exception_bytes', ob_insert_exception_bytes, ['0 <= j < %d' % len(POOL)], timeout=tier(200, 600), data='-', selectors='exception with bytes message inserted plainly / entity / html_quote; dtml-raise message'))
OBLIGATIONS.append(Ob('all_bytes_pieces', ob_all_bytes_pieces, ['0 <= j < %d' % len(POOL), '0 <= k < %d' % len(POOL)], timeout=tier(250, 900), data='-',
                      selectors='renderings whose pieces are all bytes values (no literal text), top level / if / in / entity; two pool texts, utf-8 and latin-1'))


# ---------------------------------------------------------------- wave 3: a zoo of values whose str() is perfectly fine
import abc                                   # noqa: E402
import collections                           # noqa: E402
import datetime                              # noqa: E402
import decimal                               # noqa: E402
import enum                                  # noqa: E402
import fractions                             # noqa: E402

from crosshair.tracers import NoTracing      # noqa: E402


class Meta(type):
    pass


class WithMeta(metaclass=Meta):
    pass


class Abstract(abc.ABC):
    @abc.abstractmethod
    def f(self):
        pass


class Color(enum.Enum):
    RED = 1


class IntSub(int):
    pass


class StrSub(str):
    pass


class ListSub(list):
    pass


class Slots:
    __slots__ = ('a',)


NT = collections.namedtuple('NT', 'a b')
ZOO = [WithMeta, Abstract, Color, Color.RED, IntSub(5), StrSub('s<'), ListSub([1]), Slots(), NT(1, 2), decimal.Decimal('1.50'), fractions.Fraction(1, 3),
       datetime.date(2020, 1, 2), 1.5, 1 + 2j, range(3), frozenset([1]), b'\xc3\xa9'.decode('utf-8'), len, Meta, type, object(), NotImplemented, Ellipsis,
       WithMeta(), Exception, KeyError, MyErr, collections.OrderedDict(a=1), memoryview(b'ab').tobytes, (x for x in ()), lambda: 0]
T_ZOO = HTML('a<dtml-var "d[\'k\']">|<dtml-var "d[\'k\']" html_quote>|<dtml-in "[d[\'k\']]"><dtml-var "_.getitem(\'sequence-item\', 0)"></dtml-in>|<dtml-if "1"><dtml-var "d[\'k\']" size=999></dtml-if>')
T_ZOO.cook()


def ob_value_zoo(j: int) -> bool:
    """values of many kinds (classes with a metaclass, ABCs, enum classes and members, subclasses of builtins, slots objects, numbers,
    functions, generators ...): ustr(v) == str(v), and insertion - plain, quoted, through in / if bodies, with a %-format - equals str(v)"""
    i = pick(j, len(ZOO))
    with NoTracing():
        v = ZOO[i]
        want = str(v)
        if ustr(v) != want:
            return False
        out = T_ZOO(d={'k': v})
        return out == 'a' + want + '|' + ref_escape(want) + '|' + want + '|' + want


OBLIGATIONS.append(Ob('ustr_value_zoo', ob_value_zoo, ['0 <= j < %d' % len(ZOO)], timeout=tier(150, 400), data='-',
                      selectors='%d pre-built values (classes with metaclass / ABC / Enum, enum member, int/str/list subclasses, __slots__ object, namedtuple, Decimal, Fraction, date, '
                      'float, complex, range, frozenset, builtin function, metaclass, type, object(), NotImplemented, Ellipsis, exception classes, OrderedDict, bound builtin method, '
                      'generator, lambda) fetched uncalled through an expression' % len(ZOO),
                      stubs='render runs untraced once the value is fixed on the path'))


# ---------------------------------------------------------------- block tags whose own result is glued from several sections
T_GLUE = {
    'try_else': ('a<dtml-try><dtml-var b><dtml-except>E<dtml-else>x</dtml-try>', 1),
    'try_finally': ('<dtml-try><dtml-var b><dtml-finally>f</dtml-try>', 1),
    'try_else_only_bytes': ('<dtml-try><dtml-var b><dtml-except>E<dtml-else><dtml-var b></dtml-try>', 2),
    'try_except_bytes': ('<dtml-try><dtml-var "1/0"><dtml-except><dtml-var b></dtml-try>z', 1),
    'if_else': ('<dtml-if c><dtml-var b><dtml-else>n</dtml-if>y', 1),
    'let_with': ('<dtml-let q=b><dtml-with w mapping><dtml-var q></dtml-with></dtml-let>!', 1),
    'in_else': ('<dtml-in empty><dtml-else><dtml-var b></dtml-in>.', 1),
    'unless': ('<dtml-unless zero><dtml-var b></dtml-unless>.', 1),
}
T_GLUE_T = {enc: {k: HTML(v[0], encoding=enc) for k, v in T_GLUE.items()} for enc in ('utf-8', 'latin-1')}
for _d in T_GLUE_T.values():
    for _t in _d.values():
        _t.cook()
GLUE_KEYS = sorted(T_GLUE)


def ob_block_sections_bytes(k: int, c1: int, latin: bool) -> bool:
    """a block tag whose body renders to ONE bytes piece and whose result is then glued to another section (else / finally / text after
    the tag): the whole is text, the bytes decoded with the template encoding"""
    ki = pick(k, len(GLUE_KEYS))
    enc = 'latin-1' if latin else 'utf-8'
    ch = chr(c1)
    if latin and c1 > 255:
        return True
    if 0xD800 <= c1 <= 0xDFFF:
        return True
    key = GLUE_KEYS[ki]
    t = T_GLUE_T[enc][key]
    text = ch + 'b'
    out = t(b=text.encode(enc), c=1, w={}, empty=[], zero=0)
    src, nb = T_GLUE[key]
    want = {'try_else': 'a' + text + 'x', 'try_finally': text + 'f', 'try_else_only_bytes': text + text, 'try_except_bytes': text + 'z',
            'if_else': text + 'y', 'let_with': text + '!', 'in_else': text + '.', 'unless': text + '.'}[key]
    return isinstance(out, str) and out == want


OBLIGATIONS.append(Ob('block_sections_bytes', ob_block_sections_bytes, ['0 <= k < %d' % len(GLUE_KEYS), '0 <= c1 <= 0x10FFFF'], timeout=tier(250, 900),
                      data='one code point (any value) of the inserted text, encoding bit', selectors='templates %r' % {k: v[0] for k, v in T_GLUE.items()}))


# ---------------------------------------------------------------- wave 4: exception objects are inserted as their MESSAGE in every form
class Wrapped(Exception):
    pass


T_EXC_FORMS = HTML('<dtml-var "d[\'k\']">|<dtml-var "d[\'k\']" html_quote>|<dtml-var "d[\'k\']" size=999>|<dtml-var "d[\'k\']" null="(unknown)">|<dtml-var "d[\'k\']" html_quote null="">|'
                   '<dtml-var "d[\'k\']" upper>|<dtml-try><dtml-var "missing[\'zebra<\']"><dtml-except KeyError><dtml-var error_value>|<dtml-var error_value null="-">|<dtml-var error_value size=99 html_quote></dtml-try>')
T_EXC_FORMS.cook()
T_EXC_FORMS_S = String('%(x)s|%(x null="-")s|%(x html_quote size=99)s')
T_EXC_FORMS_S.cook()
MSGS = ['zebra<', '', "it's", 'é&']


def ob_exception_forms(j: int, kind: int) -> bool:
    """KeyError('m'), ValueError('m'), a user exception, an exception wrapping another: inserted plainly, quoted, with size= / null= / a
    modifier, and as error_value inside an except handler - always the message text (never repr-style quotes)"""
    m = MSGS[pick(j, len(MSGS))]
    k = pick(kind, 4)
    with NoTracing():
        v = [KeyError, ValueError, MyErr, Wrapped][k](m)
        e = ref_escape(m)
        out = T_EXC_FORMS(d={'k': v}, missing={})
        if m == '':
            want_null, want_hqnull = '(unknown)', ''
        else:
            want_null, want_hqnull = m, e
        # an exception object is "null" only if it is false; exceptions are always true, so null= never applies
        want_null, want_hqnull = m, e
        want = '|'.join([m, e, m, want_null, want_hqnull, m.upper(), 'zebra<', 'zebra<', 'zebra&lt;'])
        if out != want:
            return False
        return T_EXC_FORMS_S(x=v) == m + '|' + m + '|' + e


OBLIGATIONS.append(Ob('exception_values_all_forms', ob_exception_forms, ['0 <= j < %d' % len(MSGS), '0 <= kind < 4'], timeout=tier(150, 400), path_timeout=60, data='-',
                      selectors='KeyError / ValueError / user exception / wrapping exception with a message from %r, through nine insertion forms incl. error_value in a handler, HTML and EPFS' % MSGS,
                      stubs='render runs untraced once the selectors are fixed on the path'))
