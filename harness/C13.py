"""C13 - sorting yields a stable, correctly ordered permutation and never mutates its input (engine E1)."""
import datetime
import decimal

from crosshair.tracers import NoTracing

from vlib.ob import Ob, tier
from harness.common import HTML, cooked

EXPLANATION = (
    'CrossHair renders real dtml-in templates with sort= / sort_expr= / reverse over sequences whose sort keys are symbolic '
    '(unbounded ints, optional ints, bools, reals, picked strings, callables, and order-embedded date/Decimal/bytes objects); '
    'element identities are concrete indices printed by the body. The oracle is an independent stable insertion sort on the '
    'documented key (None/missing keys first in unspecified mutual order; /desc inverts; reverse = exact reverse), plus '
    '"the caller\'s list is the same object with the same elements in the same order afterwards".')


class O:
    def __init__(self, **kw):
        self.__dict__.update(kw)


class KeyFn:
    def __init__(self, v):
        self.v = v

    def __call__(self):
        return self.v


def pick(k, n):
    lo, hi = 0, n
    while hi - lo > 1:
        mid = (lo + hi) // 2
        if k < mid:
            hi = mid
        else:
            lo = mid
    return lo


def stable_sorted(idx, less):
    """independent oracle: insertion sort, stable, uses only less(a, b)"""
    out = []
    for i in idx:
        p = len(out)
        while p > 0 and less(i, out[p - 1]):
            p -= 1
        out.insert(p, i)
    return out


def parse(out):
    return [int(x) for x in out.split(',') if x != '']


def check(got, keys, less, nones_first=True):
    n = len(keys)
    if sorted(got) != list(range(n)):
        return False                                  # not a permutation of the original elements
    none_idx = [i for i in range(n) if keys[i] is None]
    if nones_first and sorted(got[:len(none_idx)]) != none_idx:
        return False                                  # None / missing keys come first (mutual order unspecified)
    rest = [i for i in got if keys[i] is not None]
    exp = stable_sorted([i for i in range(n) if keys[i] is not None], less)
    return rest == exp


def unchanged(seq, orig):
    if len(seq) != len(orig):
        return False
    for a, b in zip(seq, orig):
        if a is not b:
            return False
    return True


T_ATTR = cooked('<dtml-in seq sort=k><dtml-var i>,</dtml-in>')
T_MAP = cooked('<dtml-in seq mapping sort=k><dtml-var i>,</dtml-in>')
T_ATTR_B = cooked('<dtml-in seq sort=k size=20><dtml-var i>,</dtml-in>')
T_REV = cooked('<dtml-in seq sort=k reverse><dtml-var i>,</dtml-in>')
T_REVONLY = cooked('<dtml-in seq reverse><dtml-var i>,</dtml-in>')
T_REVEXPR = cooked('<dtml-in seq mapping sort=k reverse_expr="r"><dtml-var i>,</dtml-in>')
T_DESC = cooked('<dtml-in seq sort=k/cmp/desc><dtml-var i>,</dtml-in>')
T_ASCF = cooked('<dtml-in seq mapping sort=k/cmp/asc><dtml-var i>,</dtml-in>')
T_TWO = cooked('<dtml-in seq sort=k,j><dtml-var i>,</dtml-in>')
T_TWO_MAP = cooked('<dtml-in seq mapping sort=k,j><dtml-var i>,</dtml-in>')
T_TWO_DESC = cooked('<dtml-in seq sort=k/cmp/desc,j><dtml-var i>,</dtml-in>')
T_TWO_DESC2 = cooked('<dtml-in seq sort=k,j/cmp/desc><dtml-var i>,</dtml-in>')
T_NOCASE = cooked('<dtml-in seq sort=k/nocase><dtml-var i>,</dtml-in>')
T_EXPR = cooked('<dtml-in seq sort_expr="sk"><dtml-var i>,</dtml-in>')
T_ITEM_T = cooked('<dtml-in seq sort=sequence-item><dtml-var sequence-item>,</dtml-in>')
T_EMPTY_T = cooked('<dtml-in seq sort><dtml-var sequence-item>,</dtml-in>')
T_ITEM_I = cooked('<dtml-in seq sort=sequence-item><dtml-call "rec(_[\'sequence-item\'])"></dtml-in>')
T_USERF = cooked('<dtml-in seq sort=k/mycmp><dtml-var i>,</dtml-in>')


def ilist(n, a, b, c, d, e, f):
    return [a, b, c, d, e, f][:n]


def render_order(t, seq, **kw):
    orig = list(seq)
    out = t(seq=seq, **kw)
    return parse(out), unchanged(seq, orig)


def make_int(n, t, mapping=False, mode='asc'):
    def ob(a: int, b: int, c: int, d: int, e: int, f: int) -> bool:
        keys = ilist(n, a, b, c, d, e, f)
        seq = [({'k': k, 'i': i} if mapping else O(k=k, i=i)) for i, k in enumerate(keys)]
        got, same = render_order(t, seq)
        if not same:
            return False
        if mode == 'asc':
            return check(got, keys, lambda x, y: keys[x] < keys[y])
        if mode == 'desc':
            return check(got, keys, lambda x, y: keys[x] > keys[y])
        # reverse of the ascending stable order
        got.reverse()
        return check(got, keys, lambda x, y: keys[x] < keys[y])
    ob.__name__ = 'ob_int_%d_%s%s' % (n, mode, '_map' if mapping else '')
    return ob


def make_optint(n, t, mapping=False, missing=False):
    def ob(a: int, b: int, c: int, d: int, na: bool, nb: bool, nc: bool, nd: bool) -> bool:
        vals = [a, b, c, d][:n]
        nn = [na, nb, nc, nd][:n]
        keys = [None if nn[i] else vals[i] for i in range(n)]
        seq = []
        for i, k in enumerate(keys):
            if mapping:
                m = {'i': i}
                if k is not None or not missing:
                    m['k'] = k
                seq.append(m)
            else:
                o = O(i=i)
                if k is not None or not missing:
                    o.k = k
                seq.append(o)
        got, same = render_order(t, seq)
        return same and check(got, keys, lambda x, y: keys[x] < keys[y])
    ob.__name__ = 'ob_optint_%d%s%s' % (n, '_map' if mapping else '', '_missing' if missing else '')
    return ob


def make_bool(n):
    def ob(a: bool, b: bool, c: bool, d: bool, e: bool) -> bool:
        keys = [a, b, c, d, e][:n]
        seq = [O(k=k, i=i) for i, k in enumerate(keys)]
        got, same = render_order(T_ATTR, seq)
        return same and check(got, keys, lambda x, y: (not keys[x]) and keys[y])
    ob.__name__ = 'ob_bool_%d' % n
    return ob


def make_float(n):
    def ob(a: float, b: float, c: float, d: float) -> bool:
        keys = [a, b, c, d][:n]
        for k in keys:
            if k != k:
                return True        # NaN has no order
        seq = [{'k': k, 'i': i} for i, k in enumerate(keys)]
        got, same = render_order(T_MAP, seq)
        return same and check(got, keys, lambda x, y: keys[x] < keys[y])
    ob.__name__ = 'ob_float_%d' % n
    return ob


EMBED = {
    'date': [datetime.date(2020, 1, 1), datetime.date(2020, 1, 2), datetime.date(2021, 6, 3), datetime.date(2022, 1, 4)],
    'decimal': [decimal.Decimal('-1.5'), decimal.Decimal('0'), decimal.Decimal('0.25'), decimal.Decimal('10')],
    'bytes': [b'', b'a', b'ab', b'b'],
    'str': ['', 'A', 'a', 'ab'],
    'tuple': [(0, 1), (0, 2), (1, 0), (1, 0, 0)],
    'callable': None,
}


def make_embed(kind, n):
    objs = EMBED[kind]

    def ob(a: int, b: int, c: int, d: int) -> bool:
        ranks = [pick(x, 4) for x in [a, b, c, d][:n]]
        if kind == 'callable':
            keys = [KeyFn(r) for r in ranks]
        else:
            keys = [objs[r] for r in ranks]
        seq = [O(k=k, i=i) for i, k in enumerate(keys)]
        got, same = render_order(T_ATTR, seq)
        return same and check(got, ranks, lambda x, y: ranks[x] < ranks[y])
    ob.__name__ = 'ob_embed_%s_%d' % (kind, n)
    return ob


def make_two(n, t, desc1=False, desc2=False, mapping=False, fn=False):
    def ob(a: int, b: int, c: int, d: int, ja: int, jb: int, jc: int, jd: int) -> bool:
        ks = [a, b, c, d][:n]
        js = [ja, jb, jc, jd][:n]
        if fn:      # keys are callable attributes: the code calls them and gets the (still symbolic) int back
            seq = [O(k=KeyFn(ks[i]), j=KeyFn(js[i]), i=i) for i in range(n)]
        else:
            seq = [({'k': ks[i], 'j': js[i], 'i': i} if mapping else O(k=ks[i], j=js[i], i=i)) for i in range(n)]
        got, same = render_order(t, seq)

        def less(x, y):
            if ks[x] != ks[y]:
                return (ks[x] > ks[y]) if desc1 else (ks[x] < ks[y])
            if js[x] != js[y]:
                return (js[x] > js[y]) if desc2 else (js[x] < js[y])
            return False
        return same and check(got, ks, less)
    ob.__name__ = 'ob_two_%d_%s%s%s%s' % (n, 'd' if desc1 else 'a', 'd' if desc2 else 'a', '_map' if mapping else '', '_fn' if fn else '')
    return ob


WORDS = ['a', 'A', 'b', 'B', 'ab', 'Ab', 'aB', '']


def make_nocase(n):
    def ob(a: int, b: int, c: int, d: int) -> bool:
        ws = [WORDS[pick(x, len(WORDS))] for x in [a, b, c, d][:n]]
        seq = [O(k=w, i=i) for i, w in enumerate(ws)]
        got, same = render_order(T_NOCASE, seq)
        return same and check(got, ws, lambda x, y: ws[x].lower() < ws[y].lower())
    ob.__name__ = 'ob_nocase_%d' % n
    return ob


def make_expr(n):
    def ob(a: int, b: int, c: int, ja: int, jb: int, jc: int, usej: bool, desc: bool) -> bool:
        ks = [a, b, c][:n]
        js = [ja, jb, jc][:n]
        seq = [O(k=ks[i], j=js[i], i=i) for i in range(n)]
        use = js if usej else ks
        spec = ('j' if usej else 'k') + ('/cmp/desc' if desc else '')
        got, same = render_order(T_EXPR, seq, sk=spec)
        return same and check(got, use, (lambda x, y: use[x] > use[y]) if desc else (lambda x, y: use[x] < use[y]))
    ob.__name__ = 'ob_sortexpr_%d' % n
    return ob


T_ITEM_REC = cooked('<dtml-in seq sort=sequence-item><dtml-call "rec(_[\'sequence-key\'], _[\'sequence-item\'])"></dtml-in>')
T_EMPTY_REC = cooked('<dtml-in seq sort><dtml-call "rec(_[\'sequence-key\'], _[\'sequence-item\'])"></dtml-in>')
T_EMPTY_REV = cooked('<dtml-in seq sort reverse><dtml-call "rec(_[\'sequence-key\'], _[\'sequence-item\'])"></dtml-in>')


def make_items(n, t, rev=False):
    """2-tuples (key, value): empty sort / sort=sequence-item order by the key only, stably - whatever the values are
    (symbolic ints, so ties in the key meet values in any order; a recorder observes key and value)"""
    def ob(a: int, b: int, c: int, d: int, va: int, vb: int, vc: int, vd: int) -> bool:
        ks = [a, b, c, d][:n]
        vs = [va, vb, vc, vd][:n]
        seq = [(ks[i], vs[i]) for i in range(n)]
        orig = list(seq)
        seen = []
        t(seq=seq, rec=lambda k, v: seen.append((k, v)))
        if not unchanged(seq, orig) or len(seen) != n:
            return False
        exp = stable_sorted(list(range(n)), lambda x, y: ks[x] < ks[y])
        if rev:
            exp.reverse()
        for p in range(n):
            if seen[p][0] != ks[exp[p]] or seen[p][1] != vs[exp[p]]:
                return False
        return True
    ob.__name__ = 'ob_items_%d%s' % (n, '_rev' if rev else '')
    return ob


def make_items_dict(n):
    """2-tuples whose values are not comparable at all (dicts): ties in the key must not make the sort look at them"""
    def ob(a: int, b: int, c: int) -> bool:
        ks = [a, b, c][:n]
        seq = [(ks[i], {'i': i}) for i in range(n)]
        seen = []
        T_EMPTY_REC(seq=seq, rec=lambda k, v: seen.append(v['i']))
        return check(seen, ks, lambda x, y: ks[x] < ks[y])
    ob.__name__ = 'ob_items_dict_%d' % n
    return ob


SRC_EXPR = '<dtml-in seq sort_expr="sk"><dtml-var i>,</dtml-in>'
SRC_USERF = '<dtml-in seq sort=k/mycmp><dtml-var i>,</dtml-in>'


def fresh(src):
    with NoTracing():
        t = HTML(src)
        t.cook()
    return t


def make_expr_twice(n):
    """the sort specification is evaluated per rendering: two renderings of ONE freshly compiled template with different
    sort_expr values (symbolic choice of key and direction each time) must each be ordered by their own specification"""
    def ob(a: int, b: int, c: int, ja: int, jb: int, jc: int, usej1: bool, desc1: bool, usej2: bool, desc2: bool) -> bool:
        ks = [a, b, c][:n]
        js = [ja, jb, jc][:n]
        t = fresh(SRC_EXPR)
        for usej, desc in ((usej1, desc1), (usej2, desc2)):
            seq = [O(k=ks[i], j=js[i], i=i) for i in range(n)]
            use = js if usej else ks
            spec = ('j' if usej else 'k') + ('/cmp/desc' if desc else '/cmp')
            got, same = render_order(t, seq, sk=spec)
            if not same or not check(got, use, (lambda x, y: use[x] > use[y]) if desc else (lambda x, y: use[x] < use[y])):
                return False
        return True
    ob.__name__ = 'ob_sortexpr_twice_%d' % n
    return ob


def make_userf_twice(n):
    """a comparison function named in sort= is looked up in the namespace of each rendering"""
    def ob(a: int, b: int, c: int, abs1: bool, abs2: bool) -> bool:
        ks = [a, b, c][:n]
        t = fresh(SRC_USERF)

        def cmp_abs(x, y):
            ax, ay = abs(x), abs(y)
            return (ax > ay) - (ax < ay)

        def cmp_neg(x, y):
            return (x < y) - (x > y)
        for use_abs in (abs1, abs2):
            seq = [O(k=ks[i], i=i) for i in range(n)]
            got, same = render_order(t, seq, mycmp=cmp_abs if use_abs else cmp_neg)
            less = (lambda x, y: abs(ks[x]) < abs(ks[y])) if use_abs else (lambda x, y: ks[x] > ks[y])
            if not same or not check(got, ks, less):
                return False
        return True
    ob.__name__ = 'ob_userf_twice_%d' % n
    return ob


def make_plain(n):
    """plain elements: sort=sequence-item orders by the element itself"""
    def ob(a: int, b: int, c: int, d: int) -> bool:
        vals = [a, b, c, d][:n]
        seq = list(vals)
        seen = []
        T_ITEM_I(seq=seq, rec=seen.append)
        if len(seq) != n or len(seen) != n:
            return False
        for i in range(n):
            if seq[i] != vals[i]:
                return False
        exp = stable_sorted(list(range(n)), lambda x, y: vals[x] < vals[y])
        for i in range(n):
            if seen[i] != vals[exp[i]]:
                return False
        return True
    ob.__name__ = 'ob_plain_%d' % n
    return ob


def make_revonly(n):
    def ob(r: bool, a: int, b: int, c: int) -> bool:
        ks = [a, b, c, 0][:n]
        seq = [O(k=ks[i], i=i) for i in range(n)]
        got, same = render_order(T_REVONLY, seq)
        if not same or got != list(range(n - 1, -1, -1)):
            return False
        seq2 = [{'k': ks[i], 'i': i} for i in range(n)]
        got2, same2 = render_order(T_REVEXPR, seq2, r=r)
        if r:
            got2.reverse()
        return same2 and check(got2, ks, lambda x, y: ks[x] < ks[y])
    ob.__name__ = 'ob_reverse_%d' % n
    return ob


def make_userf(n):
    """comparison function taken from the namespace (one sigma case: compare by absolute value)"""
    def ob(a: int, b: int, c: int) -> bool:
        ks = [a, b, c][:n]
        seq = [O(k=ks[i], i=i) for i in range(n)]

        def mycmp(x, y):
            ax, ay = abs(x), abs(y)
            return (ax > ay) - (ax < ay)
        got, same = render_order(T_USERF, seq, mycmp=mycmp)
        return same and check(got, ks, lambda x, y: abs(ks[x]) < abs(ks[y]))
    ob.__name__ = 'ob_userf_%d' % n
    return ob


def explain(obname, args):
    return ''


OBLIGATIONS = []
N1 = tier(5, 6)
INT6 = ['True']
for _n in range(2, N1 + 1):
    OBLIGATIONS.append(Ob('int_attr_n%d' % _n, make_int(_n, T_ATTR), timeout=tier(200, 900), data='%d unbounded int keys (object attributes)' % _n,
                          selectors='sort=k', bounds='len = %d; ints unbounded' % _n, outside='sequences longer than %d' % N1))
OBLIGATIONS.append(Ob('int_map_n%d' % tier(3, 4), make_int(tier(3, 4), T_MAP, True), timeout=tier(200, 900), data='unbounded int keys (mapping keys)', selectors='sort=k mapping'))
OBLIGATIONS.append(Ob('int_batch_n3', make_int(3, T_ATTR_B), timeout=tier(200, 900), data='3 unbounded int keys', selectors='sort=k size=20 (batched renderer)'))
OBLIGATIONS.append(Ob('int_reverse_n%d' % tier(3, 4), make_int(tier(3, 4), T_REV, False, 'rev'), timeout=tier(200, 900), data='unbounded int keys', selectors='sort=k reverse: exact reverse of the stable ascending order'))
OBLIGATIONS.append(Ob('int_desc_n%d' % tier(3, 4), make_int(tier(3, 4), T_DESC, False, 'desc'), timeout=tier(250, 900), data='unbounded int keys', selectors='sort=k/cmp/desc (cmp_to_key path)'))
OBLIGATIONS.append(Ob('int_ascf_n3', make_int(3, T_ASCF, True, 'asc'), timeout=tier(250, 900), data='unbounded int keys', selectors='sort=k/cmp/asc mapping'))
for _map in (False, True):
    for _miss in (False, True):
        OBLIGATIONS.append(Ob('optint_n%d%s%s' % (tier(3, 4), '_map' if _map else '', '_missing' if _miss else ''), make_optint(tier(3, 4), T_MAP if _map else T_ATTR, _map, _miss),
                              timeout=tier(250, 900), data='int keys, each optionally %s (symbolic bits)' % ('absent' if _miss else 'None'), selectors='sort=k%s' % (' mapping' if _map else '')))
OBLIGATIONS.append(Ob('bool_n%d' % tier(4, 5), make_bool(tier(4, 5)), timeout=tier(200, 600), data='symbolic bool keys', selectors='sort=k'))
OBLIGATIONS.append(Ob('float_n3', make_float(3), ['-1e6 <= a <= 1e6', '-1e6 <= b <= 1e6', '-1e6 <= c <= 1e6', '-1e6 <= d <= 1e6'], timeout=tier(250, 900), data='3 real-valued keys (CrossHair models floats as reals; NaN excluded)', selectors='sort=k mapping'))
for _kind in EMBED:
    OBLIGATIONS.append(Ob('embed_%s_n%d' % (_kind, tier(3, 4)), make_embed(_kind, tier(3, 4)), ['0 <= a < 4', '0 <= b < 4', '0 <= c < 4', '0 <= d < 4'], timeout=tier(200, 900),
                          data='key ranks 0..3 (symbolic) selecting one of four pre-built %s keys' % _kind, selectors='sort=k, %s keys' % _kind,
                          outside='key objects other than the four per type'))
R2 = ['0 <= %s <= 2' % v for v in ('a', 'b', 'c', 'd')] + ['0 <= %s <= 1' % v for v in ('ja', 'jb', 'jc', 'jd')]
for _d1, _d2, _t in ((False, False, T_TWO), (True, False, T_TWO_DESC), (False, True, T_TWO_DESC2)):
    _spec = 'sort=k%s,j%s' % ('/cmp/desc' if _d1 else '', '/cmp/desc' if _d2 else '')
    OBLIGATIONS.append(Ob('two_%s%s_fn_n3' % ('d' if _d1 else 'a', 'd' if _d2 else 'a'), make_two(3, _t, _d1, _d2, False, True), timeout=tier(280, 1200),
                          data='two unbounded int keys per element, delivered by callable attributes', selectors=_spec, bounds='len = 3; ints unbounded',
                          outside='two-key sorts of more than 3 elements'))
    OBLIGATIONS.append(Ob('two_%s%s_n2' % ('d' if _d1 else 'a', 'd' if _d2 else 'a'), make_two(2, _t, _d1, _d2), R2, timeout=tier(280, 1200),
                          data='two plain int keys per element, k in 0..2, j in 0..1 (the multi-key code calls every key, which makes CrossHair realise plain ints)',
                          selectors=_spec, outside='plain-int two-key sorts beyond 2 elements / key values beyond 0..2 x 0..1'))
OBLIGATIONS.append(Ob('two_map_n2', make_two(2, T_TWO_MAP, False, False, True), R2, timeout=tier(280, 1200), data='two int keys, k in 0..2, j in 0..1', selectors='sort=k,j mapping'))
OBLIGATIONS.append(Ob('nocase_n%d' % tier(3, 4), make_nocase(tier(3, 4)), ['0 <= %s < 8' % v for v in 'abcd'], timeout=tier(200, 900),
                      data='key index 0..7 (symbolic) into %r' % WORDS, selectors='sort=k/nocase'))
OBLIGATIONS.append(Ob('sort_expr_n3', make_expr(3), timeout=tier(280, 900), data='int keys k, j; symbolic choice of key and direction at render time', selectors='sort_expr="sk"'))
NI = tier(3, 4)
OBLIGATIONS.append(Ob('items_item_n%d' % NI, make_items(NI, T_ITEM_REC), timeout=tier(200, 900), data='unbounded int keys AND unbounded int values of 2-tuples', selectors='sort=sequence-item over (key, value) tuples'))
OBLIGATIONS.append(Ob('items_empty_n%d' % NI, make_items(NI, T_EMPTY_REC), timeout=tier(200, 900), data='unbounded int keys AND values of 2-tuples', selectors='empty sort over (key, value) tuples'))
OBLIGATIONS.append(Ob('items_empty_rev_n3', make_items(3, T_EMPTY_REV, True), timeout=tier(200, 900), data='unbounded int keys AND values of 2-tuples', selectors='empty sort + reverse over (key, value) tuples'))
OBLIGATIONS.append(Ob('items_dict_n3', make_items_dict(3), timeout=tier(200, 900), data='unbounded int keys of 2-tuples with dict values', selectors='empty sort over (key, dict) tuples'))
OBLIGATIONS.append(Ob('sort_expr_twice_n%d' % tier(2, 3), make_expr_twice(tier(2, 3)), timeout=tier(280, 900), data='int keys k, j; two renderings of one fresh template, each with a symbolic choice of key and direction',
                      selectors='sort_expr="sk" rendered twice', stubs='template compiled untraced inside the obligation (fresh object per path)'))
OBLIGATIONS.append(Ob('userf_twice_n3', make_userf_twice(3), ['-3 <= a <= 3', '-3 <= b <= 3', '-3 <= c <= 3'], timeout=tier(280, 900), data='int keys -3..3; comparison function chosen per rendering',
                      selectors='sort=k/mycmp rendered twice', stubs='template compiled untraced inside the obligation (fresh object per path)'))
OBLIGATIONS.append(Ob('plain_item_n3', make_plain(3), timeout=tier(200, 900), data='3 unbounded int elements', selectors='sort=sequence-item over plain ints (recorder observes the order)'))
OBLIGATIONS.append(Ob('reverse_n3', make_revonly(3), timeout=tier(200, 900), data='int keys, reverse_expr truth value', selectors='reverse alone; sort=k reverse_expr="r"'))
OBLIGATIONS.append(Ob('userf_n3', make_userf(3), ['-3 <= a <= 3', '-3 <= b <= 3', '-3 <= c <= 3'], timeout=tier(250, 900), data='int keys -3..3', selectors='sort=k/mycmp (comparison function from the namespace)'))


# ---------------------------------------------------------------- wave 3: None / missing keys with /nocase, callables returning None,
# sort_expr naming the element itself
T_NOCASE_MAP = cooked('<dtml-in seq mapping sort=k/nocase><dtml-var i>,</dtml-in>')
T_NOCASE_TWO = cooked('<dtml-in seq sort="k/nocase,j"><dtml-var i>,</dtml-in>')
T_NOCASE_DESC = cooked('<dtml-in seq sort=k/nocase/desc><dtml-var i>,</dtml-in>')
WORDS_OPT = ['a', 'A', 'b', 'B', 'ab', '', None, 'MISSING']


def make_nocase_opt(n, variant):
    """keys from a pool that includes None and 'attribute / mapping key absent': those elements come first, the others are ordered
    case-insensitively and stably"""
    def ob(a: int, b: int, c: int, d: int) -> bool:
        ws = [WORDS_OPT[pick(x, len(WORDS_OPT))] for x in [a, b, c, d][:n]]
        keys = [None if w == 'MISSING' else w for w in ws]
        seq = []
        for i, w in enumerate(ws):
            if variant == 'map':
                m = {'i': i}
                if w != 'MISSING':
                    m['k'] = w
            else:
                m = O(i=i, j=0)
                if w != 'MISSING':
                    m.k = w
            seq.append(m)
        t = {'map': T_NOCASE_MAP, 'attr': T_NOCASE, 'two': T_NOCASE_TWO, 'desc': T_NOCASE_DESC}[variant]
        got, same = render_order(t, seq)
        if variant == 'desc':
            # /desc inverts the key's order; where the None / missing keys go then is not specified: compare the rest only
            return same and check(got, keys, lambda x, y: keys[x].lower() > keys[y].lower(), nones_first=False)
        return same and check(got, keys, lambda x, y: keys[x].lower() < keys[y].lower())
    ob.__name__ = 'ob_nocase_opt_%s_%d' % (variant, n)
    return ob


for _v in ('attr', 'map', 'two', 'desc'):
    OBLIGATIONS.append(Ob('nocase_optional_%s_n3' % _v, make_nocase_opt(3, _v), ['0 <= %s < 8' % v for v in 'abcd'], timeout=tier(200, 900),
                          data='key index 0..7 (symbolic) into %r (None and absent keys included)' % WORDS_OPT,
                          selectors={'attr': 'sort=k/nocase', 'map': 'sort=k/nocase mapping', 'two': 'sort="k/nocase,j"', 'desc': 'sort=k/nocase/desc'}[_v]))


class OptFn:
    """callable sort key that returns None for some elements"""

    def __init__(self, v, none):
        self.v, self.none = v, none

    def __call__(self):
        return None if self.none else self.v


T_TWO_FN = cooked('<dtml-in seq sort=k,j><dtml-var i>,</dtml-in>')
T_ATTR_DESC = cooked('<dtml-in seq sort=k/cmp/asc><dtml-var i>,</dtml-in>')


def make_callable_none(n, variant):
    def ob(a: int, b: int, c: int, na: bool, nb: bool, nc: bool) -> bool:
        vals = [a, b, c][:n]
        nn = [na, nb, nc][:n]
        keys = [None if nn[i] else vals[i] for i in range(n)]
        seq = [O(k=OptFn(vals[i], nn[i]), j=0, i=i) for i in range(n)]
        t = {'single': T_ATTR, 'two': T_TWO_FN, 'cmpfn': T_ATTR_DESC, 'batch': T_ATTR_B}[variant]
        got, same = render_order(t, seq)
        return same and check(got, keys, lambda x, y: keys[x] < keys[y])
    ob.__name__ = 'ob_callable_none_%s_%d' % (variant, n)
    return ob


for _v in ('single', 'two', 'cmpfn', 'batch'):
    OBLIGATIONS.append(Ob('callable_none_%s_n3' % _v, make_callable_none(3, _v), timeout=tier(250, 900),
                          data='3 callable keys returning an unbounded int or None (symbolic bit each)',
                          selectors={'single': 'sort=k', 'two': 'sort=k,j', 'cmpfn': 'sort=k/cmp/asc', 'batch': 'sort=k size=20'}[_v]))

T_EXPR_ITEM = cooked('<dtml-in seq sort_expr="sk"><dtml-call "rec(_[\'sequence-item\'])"></dtml-in>')
T_EXPR_ITEM_T = cooked('<dtml-in seq sort_expr="sk"><dtml-call "rec(_[\'sequence-key\'])"></dtml-in>')


def make_expr_item(n):
    """a sort_expr whose value is '' or 'sequence-item' orders by the element itself (by the key of 2-tuples), like sort= does"""
    def ob(a: int, b: int, c: int, named: bool, tuples: bool) -> bool:
        vals = [a, b, c][:n]
        seq = [(v, {'v': v}) for v in vals] if tuples else list(vals)
        seen = []
        (T_EXPR_ITEM_T if tuples else T_EXPR_ITEM)(seq=seq, rec=seen.append, sk='sequence-item' if named else '')
        exp = stable_sorted(list(range(n)), lambda x, y: vals[x] < vals[y])
        if len(seen) != n:
            return False
        for i in range(n):
            if seen[i] != vals[exp[i]]:
                return False
        return True
    ob.__name__ = 'ob_sortexpr_item_%d' % n
    return ob


OBLIGATIONS.append(Ob('sort_expr_item_n3', make_expr_item(3), timeout=tier(250, 900), data='3 unbounded int elements / tuple keys; bits: value of sort_expr is "sequence-item" or "", elements are 2-tuples',
                      selectors='sort_expr="sk" evaluating to the element sort'))

T_ITEM_DESC = cooked('<dtml-in seq sort="sequence-item/cmp/desc"><dtml-call "rec(_[\'sequence-item\'])"></dtml-in>')
T_EMPTY_DESC = cooked('<dtml-in seq sort="/cmp/desc"><dtml-call "rec(_[\'sequence-item\'])"></dtml-in>')
T_ITEM_NOCASE = cooked('<dtml-in seq sort="sequence-item/nocase"><dtml-call "rec(_[\'sequence-item\'])"></dtml-in>')


def make_item_options(n):
    """ordering by the element itself combined with options: sort=sequence-item/cmp/desc and sort=/cmp/desc are the same request"""
    def ob(a: int, b: int, c: int, named: bool) -> bool:
        vals = [a, b, c][:n]
        seen = []
        (T_ITEM_DESC if named else T_EMPTY_DESC)(seq=list(vals), rec=seen.append)
        exp = stable_sorted(list(range(n)), lambda x, y: vals[x] > vals[y])
        if len(seen) != n:
            return False
        for i in range(n):
            if seen[i] != vals[exp[i]]:
                return False
        words = [WORDS[pick(x, len(WORDS))] for x in vals]
        seen2 = []
        T_ITEM_NOCASE(seq=list(words), rec=seen2.append)
        exp2 = stable_sorted(list(range(n)), lambda x, y: words[x].lower() < words[y].lower())
        return seen2 == [words[i] for i in exp2]
    ob.__name__ = 'ob_item_options_%d' % n
    return ob


OBLIGATIONS.append(Ob('item_sort_with_options_n3', make_item_options(3), ['0 <= a < 4', '0 <= b < 4', '0 <= c < 4'], timeout=tier(250, 900), data='3 int elements 0..3 (also used as indexes into the word pool)',
                      selectors='sort="sequence-item/cmp/desc" vs sort="/cmp/desc"; sort="sequence-item/nocase" over words'))
