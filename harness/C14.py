"""C14 - try/except/else/finally, raise and return follow Python-like control flow (engine E1)."""
from vlib.ob import Ob, tier
from harness.common import HTML, String, cooked

EXPLANATION = ('CrossHair runs real renders of try templates whose body, handlers, else and finally bodies call namespace stubs '
               'that raise a symbolically chosen class of a depth-3 hierarchy (or KeyError), return normally, or trigger '
               'dtml-return; a reference interpreter written from the property statement predicts output / propagated '
               'exception class and message / returned value / ordered call log.')


class Err1(Exception):
    pass


class Err2(Err1):
    pass


class Err3(Err2):
    pass


def raiser(log, tag, k):
    """stub: k=0 returns '', 1..3 raise ErrK, 4 raises KeyError (message differs from every name)"""
    def f():
        log.append(tag)
        if k == 1:
            raise Err1('m1')
        if k == 2:
            raise Err2('m2')
        if k == 3:
            raise Err3('m3')
        if k == 4:
            raise KeyError('kk')
        return ''
    return f


MRO = {1: ['Err1', 'Exception', 'BaseException', 'object'], 2: ['Err2', 'Err1', 'Exception', 'BaseException', 'object'],
       3: ['Err3', 'Err2', 'Err1', 'Exception', 'BaseException', 'object'],
       4: ['KeyError', 'LookupError', 'Exception', 'BaseException', 'object']}
_CLS = {1: Err1, 2: Err2, 3: Err3, 4: KeyError}
_MRO = MRO


def cls_of(k):
    # if-chains: never subscript a dict with a symbolic int under CrossHair
    if k == 1:
        return Err1
    if k == 2:
        return Err2
    if k == 3:
        return Err3
    return KeyError


def mro_of(k):
    if k == 1:
        return _MRO[1]
    if k == 2:
        return _MRO[2]
    if k == 3:
        return _MRO[3]
    return _MRO[4]

# handler lists: each handler is a tuple of names; () is the bare except
HLISTS = {
    'e3_e2_e1': [('Err3',), ('Err2',), ('Err1',)],
    'e1_e3': [('Err1',), ('Err3',)],
    'e2_bare': [('Err2',), ()],
    'bare': [()],
    'key_e1': [('KeyError',), ('Err1',)],
    'e3key_e2': [('Err3', 'KeyError'), ('Err2',)],
    'e2': [('Err2',)],
    'lookup_exc': [('LookupError',), ('Exception',)],
    'e3': [('Err3',)],
    'none': [],
    'bare_e1': [(), ('Err1',)],
    'e3_bare_e1': [('Err3',), (), ('Err1',)],
    'bare_key': [(), ('KeyError',)],
}


def build_try(hl, has_else, syntax='dtml'):
    s = 'P<dtml-try>B<dtml-var body>b'
    for i, names in enumerate(HLISTS[hl]):
        s += '<dtml-except %s>H%d:<dtml-var error_type>:<dtml-var h%d>h' % (' '.join(names), i, i)
    if has_else:
        s += '<dtml-else>L<dtml-var els>l'
    s += '</dtml-try>|<dtml-if error_type>LEAK</dtml-if>Q'
    if syntax == 'ssi':
        s = s.replace('<dtml-', '<!--#').replace('</dtml-', '<!--#/').replace('>', '-->')
    return s


def oracle_try(hl, has_else, k, hk, ek):
    """-> ('out', text, log) | ('exc', class, log)"""
    log = ['body']
    if k == 0:
        out = 'PBb'
        if has_else:
            log.append('els')
            if ek:
                return ('exc', cls_of(ek), log)
            out += 'Ll'
        return ('out', out + '|Q', log)
    # find first handler naming the class or one of its bases, or bare
    for i, names in enumerate(HLISTS[hl]):
        if not names or any(n in mro_of(k) for n in names):
            log.append('h%d' % i)
            if hk:
                return ('exc', cls_of(hk), log)
            return ('out', 'PH%d:%s:h|Q' % (i, mro_of(k)[0], ), log)
    return ('exc', cls_of(k), log)


TT = {}
for _hl in HLISTS:
    for _he in (False, True):
        if _hl == 'none' and not _he:
            continue
        for _syn in ('dtml', 'ssi'):
            if _syn == 'ssi' and _hl not in ('e3_e2_e1', 'e2_bare', 'e3_bare_e1'):
                continue
            TT['%s_%s_%s' % (_hl, 'else' if _he else 'noelse', _syn)] = (_hl, _he, cooked(build_try(_hl, _he, _syn)))


def make_try(key):
    hl, he, t = TT[key]
    nh = len(HLISTS[hl])

    def ob(k: int, hk: int, ek: int) -> bool:
        log = []
        ns = {'body': raiser(log, 'body', k), 'els': raiser(log, 'els', ek)}
        for i in range(nh):
            ns['h%d' % i] = raiser(log, 'h%d' % i, hk)
        exp = oracle_try(hl, he, k, hk, ek)
        try:
            out = t(**ns)
        except Exception as e:
            return exp[0] == 'exc' and type(e) is exp[1] and log == exp[2]
        return exp[0] == 'out' and out == exp[1] and log == exp[2]
    ob.__name__ = 'ob_try_' + key
    return ob


# try/finally, with returns
T_FIN = cooked('P<dtml-try>B<dtml-var body>b<dtml-if br><dtml-return rv></dtml-if>c<dtml-finally>F<dtml-var fin>f'
               '<dtml-if fr><dtml-return fv></dtml-if>g</dtml-try>Q')


def ob_finally(k: int, fk: int, br: bool, fr: bool, rv: int, fv: int) -> bool:
    log = []
    try:
        out = T_FIN(body=raiser(log, 'body', k), fin=raiser(log, 'fin', fk), br=br, fr=fr, rv=rv, fv=fv)
        res = ('out', out)
    except Exception as e:
        res = ('exc', type(e))
    # reference: body; finally exactly once; then the pending outcome continues unless finally itself raises/returns
    elog = ['body', 'fin']
    if fk:
        exp = ('exc', cls_of(fk))
    elif fr:
        exp = ('out', fv)
    elif k:
        exp = ('exc', cls_of(k))
    elif br:
        exp = ('out', rv)
    else:
        exp = ('out', 'PBbcFfgQ')
    if log != elog:
        return False
    if exp[0] == 'exc':
        return res[0] == 'exc' and res[1] is exp[1]
    return res[0] == 'out' and type(res[1]) is type(exp[1]) and res[1] == exp[1]


# dtml-return from any nesting depth, not caught by except handlers (also bare), value of any type
T_RET = cooked('P<dtml-in seq><dtml-with w mapping><dtml-let z=q><dtml-try><dtml-if go><dtml-try><dtml-return rv>'
               '<dtml-except>INNER</dtml-try></dtml-if>X<dtml-except>OUTER<dtml-else>E</dtml-try></dtml-let></dtml-with>'
               '</dtml-in>Q')


def ob_return(go: bool, kind: int, rv: int, rs: str) -> bool:
    if kind == 0:
        val = rv
    elif kind == 1:
        val = rs
    elif kind == 2:
        val = None
    else:
        val = [rv, rs]
    out = T_RET(seq=[1, 2], w={'q': 1}, go=go, rv=val)
    if go:
        return out is val
    return out == 'PXEXEQ'


T_RET_IN = {
    'handler': cooked('a<dtml-try><dtml-var body><dtml-except>h<dtml-return rv>i</dtml-try>z'),
    'else': cooked('a<dtml-try>b<dtml-else>e<dtml-return rv>f</dtml-try>z'),
    'finally': cooked('a<dtml-try>b<dtml-finally>f<dtml-return rv>g</dtml-try>z'),
    'expr': cooked('a<dtml-return expr="rv + 1">z'),
    'ssi': cooked('a<!--#return rv-->z'),
}


def ob_return_in(rv: int) -> bool:
    log = []
    ok = T_RET_IN['handler'](body=raiser(log, 'body', 1), rv=rv) == rv
    ok = ok and T_RET_IN['else'](rv=rv) == rv and T_RET_IN['finally'](rv=rv) == rv
    ok = ok and T_RET_IN['expr'](rv=rv) == rv + 1 and T_RET_IN['ssi'](rv=rv) == rv
    return ok


T_RET_EPFS = cooked('a%(return rv)!z', String)


# dtml-raise
T_RAISE = {
    'name_key': (cooked('a<dtml-raise KeyError>M<dtml-var m>N</dtml-raise>z'), KeyError),
    'type_val': (cooked('a<dtml-raise type="ValueError">M<dtml-var m>N</dtml-raise>z'), ValueError),
    'expr_cls': (cooked('a<dtml-raise expr="cls">M<dtml-var m>N</dtml-raise>z'), Err2),
    'ssi': (cooked('a<!--#raise IndexError-->M<!--#var m-->N<!--#/raise-->z'), IndexError),
    'epfs': (cooked('a%(raise TypeError)[M%(m)sN%(raise)]z', String), TypeError),
}


def make_raise(key):
    t, cls = T_RAISE[key]

    def ob(m: str) -> bool:
        try:
            t(m=m, cls=Err2)
        except Exception as e:
            if type(e) is not cls:
                return False
            arg = e.args[0] if e.args else None
            return arg == 'M' + m + 'N'
        return False
    ob.__name__ = 'ob_raise_' + key
    return ob


T_RAISE_TRY = cooked('a<dtml-try>b<dtml-if r><dtml-raise expr="cls">msg</dtml-raise></dtml-if>c'
                     '<dtml-except Err3>3<dtml-except Err1>1:<dtml-var error_value></dtml-try>z')


def ob_raise_in_try(r: bool, c: int) -> bool:
    cls = Err1 if c == 1 else Err2 if c == 2 else Err3 if c == 3 else KeyError
    try:
        out = T_RAISE_TRY(r=r, cls=cls)
    except KeyError:
        return r and c == 4
    if not r:
        return out == 'abcz'
    if c == 3:
        return out == 'a3z'
    return c in (1, 2) and out == 'a1:msgz'


# nested try depth 2: inner handler raising propagates to the outer handlers; inner else/outer else
T_NEST = cooked('P<dtml-try>O<dtml-try>I<dtml-var body>i<dtml-except Err2>H:<dtml-var h0>h<dtml-else>L</dtml-try>o'
                '<dtml-except Err3>X3<dtml-except Err1>X1:<dtml-var error_type><dtml-else>XL</dtml-try>Q')


def ob_nested(k: int, hk: int) -> bool:
    log = []
    try:
        out = T_NEST(body=raiser(log, 'body', k), h0=raiser(log, 'h0', hk))
        res = ('out', out)
    except Exception as e:
        res = ('exc', type(e))
    # reference
    def outer(exc_k):
        if exc_k == 3:
            return ('out', 'PX3Q')
        if exc_k in (1, 2):
            return ('out', 'PX1:Err%dQ' % exc_k)
        return ('exc', KeyError)
    elog = ['body']
    if k == 0:
        exp = ('out', 'POIiLoXLQ')
    elif k in (2, 3):
        elog.append('h0')
        exp = outer(hk) if hk else ('out', 'POH:hoXLQ')
    else:
        exp = outer(k)
    return res == exp and log == elog


class Mix:
    pass


class ErrMix(Err2, ValueError):
    """two base classes: a handler naming either base (or a base of either) must match"""


class ErrMix2(Mix, Err3):
    pass


T_MI = cooked('<dtml-try><dtml-var body><dtml-except ValueError>V<dtml-except Err1>E1<dtml-except>B</dtml-try>|'
              '<dtml-try><dtml-var body><dtml-except ArithmeticError>A<dtml-except LookupError Err2>L2<dtml-except>B</dtml-try>|'
              '<dtml-try><dtml-var body><dtml-except Err3>E3<dtml-except Mix>M<dtml-except>B</dtml-try>')


def ob_multiple_bases(k: int) -> bool:
    """first handler naming the exception's class or ANY of its base classes (multiple inheritance included)"""
    def body():
        if k == 0:
            raise ErrMix('x')
        if k == 1:
            raise ErrMix2('y')
        if k == 2:
            raise Err3('z')
        raise UnicodeDecodeError('utf-8', b'x', 0, 1, 'w')      # ValueError via UnicodeError
    out = T_MI(body=body, Mix=Mix, Err1=Err1, Err2=Err2, Err3=Err3)
    if k == 0:
        return out == 'V|L2|B'          # ValueError is the second base of ErrMix, Err2 its first
    if k == 1:
        return out == 'E1|L2|E3'        # Err3 is the second base of ErrMix2
    if k == 2:
        return out == 'E1|L2|E3'
    return out == 'V|B|B'


T_SCOPE = cooked('<dtml-try><dtml-try><dtml-var body><dtml-except Err2>I:<dtml-var error_type>:<dtml-var h><dtml-var error_value></dtml-try>'
                 '<dtml-except>O:<dtml-var error_type>:<dtml-var error_value></dtml-try>|<dtml-var error_type missing="UNBOUND">|<dtml-var error_value missing="UNBOUND">')


def ob_error_vars_scope(k: int, hk: int) -> bool:
    """error_type / error_value are bound inside a handler only - also when the handler itself raises and an outer handler
    takes over (it sees the NEW exception), and nothing stays bound after the blocks"""
    log = []
    out = T_SCOPE(body=raiser(log, 'body', k), h=raiser(log, 'h', hk))
    tail = '|UNBOUND|UNBOUND'
    if k == 0:
        return out == tail
    name = {1: 'Err1', 2: 'Err2', 3: 'Err3', 4: 'KeyError'}
    msg = {1: 'm1', 2: 'm2', 3: 'm3', 4: 'kk'}
    kk = 1 if k == 1 else (2 if k == 2 else (3 if k == 3 else 4))
    if kk in (2, 3):
        if hk == 0:
            return out == 'I:%s:%s' % (name[kk], msg[kk]) + tail
        hh = 1 if hk == 1 else (2 if hk == 2 else (3 if hk == 3 else 4))
        return out == 'O:%s:%s' % (name[hh], msg[hh]) + tail
    return out == 'O:%s:%s' % (name[kk], msg[kk]) + tail


OBLIGATIONS = []
for _k in TT:
    OBLIGATIONS.append(Ob('try_' + _k, make_try(_k), ['0 <= k <= 4', '0 <= hk <= 4', '0 <= ek <= 4'], timeout=tier(100, 300),
                          data='raised class selector k (body), hk (handler), ek (else): 0 none, 1..3 Err1>Err2>Err3, 4 KeyError',
                          selectors='handler list %s, else=%s, syntax %s' % (HLISTS[TT[_k][0]], TT[_k][1], _k.rsplit('_', 1)[1]),
                          outside='string exceptions; error_tb text; hierarchies deeper than 3'))
OBLIGATIONS += [
    Ob('finally', ob_finally, ['0 <= k <= 4', '0 <= fk <= 4'], timeout=tier(100, 300),
       data='k, fk class selectors; br, fr return bits; rv, fv unbounded ints', selectors='try/finally with optional dtml-return in body and finally'),
    Ob('return_depth', ob_return, ['0 <= kind <= 3', 'len(rs) <= 2'], timeout=tier(100, 300),
       data='go bool; returned value of kind int/str/None/list (rv unbounded int, rs str len<=2)',
       selectors='dtml-return inside in/with/let/try/if/try, bare excepts around it'),
    Ob('return_in_blocks', ob_return_in, [], timeout=tier(100, 300), data='rv unbounded int',
       selectors='dtml-return inside handler / else / finally / expr= / SSI'),
    Ob('raise_in_try', ob_raise_in_try, ['1 <= c <= 4'], timeout=60, data='r bool, class selector c', selectors='dtml-raise expr= inside try with two handlers'),
    Ob('nested', ob_nested, ['0 <= k <= 4', '0 <= hk <= 4'], timeout=tier(100, 300), data='k, hk class selectors', selectors='try nested in try, inner else / outer else'),
]
for _k in T_RAISE:
    OBLIGATIONS.append(Ob('raise_' + _k, make_raise(_k), ['len(m) <= 3'], timeout=tier(100, 300),
                          data='message text m, any code points, len <= 3', selectors='dtml-raise form ' + _k,
                          stubs='relib-escape' if _k == 'epfs' else ''))
ASSUMES = ['stubs never raise KeyError(<name being looked up>)']
OBLIGATIONS.append(Ob('multiple_bases', ob_multiple_bases, ['0 <= k <= 3'], timeout=tier(100, 300), data='which exception the body raises', selectors='exception classes with two bases; handlers naming a secondary base or a base of it'))
OBLIGATIONS.append(Ob('error_vars_scope', ob_error_vars_scope, ['0 <= k <= 4', '0 <= hk <= 4'], timeout=tier(100, 300), data='class raised by the body, class raised by the inner handler',
                      selectors='nested try: inner handler raises, outer bare handler; error_type/error_value after the blocks'))


# ---------------------------------------------------------------- wave 3
from crosshair.tracers import NoTracing     # noqa: E402

SRC_RAISE_EXPR = 'a<dtml-raise expr="cls">M</dtml-raise>z'
SRC_RAISE_TRY2 = '<dtml-try><dtml-raise expr="cls">M</dtml-raise><dtml-except Err2>2<dtml-except KeyError>K<dtml-except>B:<dtml-var error_type></dtml-try>'


def _fresh(src):
    with NoTracing():
        t = HTML(src)
        t.cook()
    return t


def ob_raise_per_render(d1: int, d2: int, d3: int) -> bool:
    """the exception class of <dtml-raise expr=...> is computed at every rendering: three renderings of one fresh template, each
    with the class variable undefined (0) or bound to Err2 / KeyError / Err1; no rendering may be influenced by an earlier one"""
    t = _fresh(SRC_RAISE_EXPR)
    t2 = _fresh(SRC_RAISE_TRY2)
    for d in (d1, d2, d3):
        ns = {}
        if d == 1:
            ns['cls'] = Err2
        elif d == 2:
            ns['cls'] = KeyError
        elif d == 3:
            ns['cls'] = Err1
        try:
            t(**ns)
            return False
        except Exception as e:
            if d == 0:
                # the expression cannot be evaluated: some error escapes, but not one of the classes used in other renderings
                if type(e) in (Err1, Err2, KeyError) and e.args == ('M',):
                    return False
            elif type(e) is not ns['cls'] or e.args != ('M',):
                return False
        out = t2(**ns)
        if d == 1 and out != '2':
            return False
        if d == 2 and out != 'K':
            return False
        if d == 3 and out != 'B:Err1':
            return False
        if d == 0 and (out == '2' or out == 'K' or out == 'B:Err1'):
            return False
    return True


OBLIGATIONS.append(Ob('raise_per_render', ob_raise_per_render, ['0 <= d1 <= 3', '0 <= d2 <= 3', '0 <= d3 <= 3'], timeout=tier(150, 400),
                      data='-', selectors='three renderings of one fresh <dtml-raise expr="cls"> template; per rendering cls is undefined / Err2 / KeyError / Err1',
                      stubs='templates compiled untraced inside the obligation (fresh objects per path)'))

T_RET_RAISE = {
    'raise_body': cooked('a<dtml-raise KeyError>m<dtml-if go><dtml-return rv></dtml-if>n</dtml-raise>z'),
    'raise_body_in_try': cooked('a<dtml-try><dtml-raise KeyError>m<dtml-if go><dtml-return rv></dtml-if>n</dtml-raise><dtml-except>caught</dtml-try>z'),
    'raise_expr_body': cooked('a<dtml-raise expr="cls">m<dtml-if go><dtml-return rv></dtml-if>n</dtml-raise>z'),
    'in_else_body': cooked('a<dtml-in seq><dtml-else><dtml-if go><dtml-return rv></dtml-if>e</dtml-in>z'),
    'unless_body': cooked('a<dtml-unless no><dtml-if go><dtml-return rv></dtml-if>u</dtml-unless>z'),
    'elif_body': cooked('a<dtml-if no>n<dtml-elif go><dtml-return rv><dtml-else>e</dtml-if>z'),
}


def make_return_from(key):
    t = T_RET_RAISE[key]

    def ob(go: bool, rv: int) -> bool:
        """dtml-return ends the whole call from ANY nesting depth - also from inside the body of a raise tag, an in-else, unless, elif"""
        try:
            out = t(go=go, rv=rv, cls=Err2, seq=[], no=0)
        except KeyError as e:
            return key == 'raise_body' and not go and e.args == ('mn',)
        except Err2 as e:
            return key == 'raise_expr_body' and not go and e.args == ('mn',)
        if go:
            return out is rv
        if key == 'raise_body_in_try':
            return out == 'acaughtz'
        if key == 'in_else_body':
            return out == 'aez'
        if key == 'unless_body':
            return out == 'auz'
        if key == 'elif_body':
            return out == 'aez'
        return False
    ob.__name__ = 'ob_return_from_' + key
    return ob


for _k in T_RET_RAISE:
    OBLIGATIONS.append(Ob('return_from_' + _k, make_return_from(_k), [], timeout=tier(100, 300), data='go bit, returned value rv (unbounded int)',
                          selectors='dtml-return inside ' + _k.replace('_', ' ')))


# ---------------------------------------------------------------- wave 4: names that merely resemble, return vs named handlers
class Error(Exception):
    pass


class Err(Exception):
    pass


class xErr1(Exception):
    pass


class Err12(Exception):
    pass


class rr1(Exception):
    pass


NAME_CLASSES = [Error, Err, xErr1, Err12, rr1, Err1, KeyError]
T_NAMES = cooked('<dtml-try><dtml-var body><dtml-except KeyError>K<dtml-except Err1>1<dtml-except MyException LookupErrorX>M<dtml-except>B:<dtml-var error_type></dtml-try>')


def ob_similar_names(k: int) -> bool:
    """a handler names a class by its exact name (or the exact name of a base class): names that are a prefix / suffix / extension of it
    do not match"""
    i = 0
    for j in range(len(NAME_CLASSES)):
        if k == j:
            i = j
    cls = NAME_CLASSES[i]

    def body():
        raise cls('m')
    out = T_NAMES(body=body)
    if cls is KeyError:
        return out == 'K'
    if cls is Err1:
        return out == '1'
    return out == 'B:' + cls.__name__


OBLIGATIONS.append(Ob('similar_names', ob_similar_names, ['0 <= k < %d' % len(NAME_CLASSES)], timeout=tier(100, 300), data='-',
                      selectors='exception classes named Error / Err / xErr1 / Err12 / rr1 against handlers KeyError, Err1, "MyException LookupErrorX", bare'))

T_RET_NAMED = {
    'exception': cooked('a<dtml-try>b<dtml-if go><dtml-return rv></dtml-if>c<dtml-except Exception>H:<dtml-var error_type></dtml-try>z'),
    'base': cooked('a<dtml-try>b<dtml-if go><dtml-return rv></dtml-if>c<dtml-except BaseException>H</dtml-try>z'),
    'dtreturn': cooked('a<dtml-try>b<dtml-if go><dtml-return rv></dtml-if>c<dtml-except DTReturn>H<dtml-except object>O</dtml-try>z'),
    'nested': cooked('a<dtml-try><dtml-in seq><dtml-try>i<dtml-if go><dtml-return rv></dtml-if><dtml-finally>f</dtml-try></dtml-in><dtml-except Exception>H</dtml-try>z'),
    'handler': cooked('a<dtml-try><dtml-try><dtml-var "1/0"><dtml-except ZeroDivisionError><dtml-if go><dtml-return rv></dtml-if>h</dtml-try><dtml-except Exception>H</dtml-try>z'),
}


def make_return_named(key):
    t = T_RET_NAMED[key]

    def ob(go: bool, rv: int) -> bool:
        """dtml-return is not an error: no handler catches it, whatever class names it lists (Exception, BaseException, DTReturn, object)"""
        out = t(go=go, rv=rv, seq=[1, 2])
        if go:
            return out is rv
        return out == {'exception': 'abcz', 'base': 'abcz', 'dtreturn': 'abcz', 'nested': 'aififz', 'handler': 'ahz'}[key]
    ob.__name__ = 'ob_return_named_' + key
    return ob


for _k in T_RET_NAMED:
    OBLIGATIONS.append(Ob('return_vs_named_handler_' + _k, make_return_named(_k), [], timeout=tier(100, 300), data='go bit, returned value rv (unbounded int)',
                          selectors='dtml-return inside a try whose handlers name ' + _k))
