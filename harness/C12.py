"""C12 - batching a lazy sequence pulls only the window plus one look-ahead batch (E2 touch analysis + E1 counting iterators)."""
import time

import z3

from DocumentTemplate import DT_In, DT_InSV
from vlib import astsmt
from vlib.astsmt import Explorer, Interp, Seq, Unsupported, model_value
from vlib.ob import Ob, tier
from harness.common import HTML, cooked
from harness import C11

EXPLANATION = (
    'E2: the window statements of InClass.renderwb (with DT_InSV.opt inlined) and the next-batch opt(...) call are lifted from the '
    'live AST and executed over unbounded ints with the lazy-sequence index semantics; every index the code touches is recorded as '
    'a symbolic term. z3 decides per leaf that no touched index exceeds end + size + orphan - 1, that none is negative, and that '
    'len(sequence) (which drains an iterator) is only called on leaves where an index beyond the sequence was already touched. '
    'E1: CrossHair renders real batched dtml-in templates over a counting iterator (finite with symbolic length, and unbounded) '
    'with symbolic start/size/orphan/overlap and checks the pull log.')


# ------------------------------------------------------------------ E2
V = C11.V
DOMAIN = [V['n'] >= 1, V['orphan'] >= 0, V['overlap'] >= 0, V['start'] >= 0, V['end'] >= 0, V['size'] >= 1, V['overlap'] < V['size']]


def make_e2(want):
    def run(extra=()):
        t0 = time.time()
        nvec = C11.validate_translator()
        ex = Explorer()
        try:
            leaves = C11.leaves_for(ex, True, want, extra_pc=DOMAIN[3:])
        except Unsupported as u:
            return {'status': 'inconclusive', 'message': 'astsmt: unsupported construct: %s' % u}
        bad, unknown, nq = None, 0, 0
        n = V['n']
        for lf in leaves:
            if lf.kind != 'return':
                continue
            o = lf.value
            e, z = C11.I(o['e']), C11.I(o['z'])
            limit = e + z + V['orphan'] - 1                 # last index of "window end + one look-ahead batch"
            seen_beyond = z3.BoolVal(False)
            for name, idx in lf.touches:
                if isinstance(idx, str) and idx == 'len':
                    claim = seen_beyond                      # draining the iterator is allowed only once it is known to be exhausted
                    what = 'len(sequence) called although no index beyond the sequence had been touched'
                else:
                    idx = C11.I(idx)
                    # asking for index i of a lazy sequence pulls min(n, i + 1) elements
                    claim = z3.And(idx >= 0, z3.Or(idx <= limit, n <= limit + 1))
                    what = 'index %s touched: negative, or pulls more than window end + size + orphan elements' % idx
                r, m = ex.check(lf.pc + [z3.Not(claim)])
                nq += 1
                if r == 'sat':
                    bad = (what, {k: model_value(m, v) for k, v in V.items()})
                    break
                if r == 'unknown':
                    unknown += 1
                if not (isinstance(idx, str)):
                    seen_beyond = z3.Or(seen_beyond, idx >= n)
            if bad:
                break
        res = {'paths': len(leaves), 'queries': ex.queries, 'solver_s': round(ex.solver_s, 3), 'wall_s': round(time.time() - t0, 2),
               'functions': ['DocumentTemplate/DT_InSV.py:opt', 'DocumentTemplate/DT_In.py:InClass.renderwb (window statements, next opt call)'],
               'samples': [{'leaf_touches': [str(t[1])[:40] for t in lf.touches][:6]} for lf in leaves[:2]], 'translator_vectors': nvec}
        if bad:
            res.update(status='refuted', cex={'vals': bad[1], 'want': want}, message='%s for %r' % bad)
        elif unknown:
            res.update(status='inconclusive', message='%d touch queries unknown' % unknown)
        else:
            res.update(status='confirmed', message='%d touch queries unsat on %d leaves (all integers, lazy index semantics)' % (nq, len(leaves)))
        return res
    return run


def replay_e2(cex):
    v = cex['vals']
    n = v['n']
    it = Counting(n)
    try:
        T_LAZY_ALL(it=it, st=v['start'], en=v['end'], sz=v['size'], orp=v['orphan'], ov=v['overlap'])
    except Exception as e:
        return False, 'render raised %s: %s' % (type(e).__name__, e)
    w = C11.ref_window(v['start'], v['end'], v['size'], v['orphan'], n)
    if w is None:
        return True, 'statement silent for size < 1'
    limit = w[1] + v['size'] + v['orphan']
    if len(it.pulled) > min(n, limit):
        return False, 'pulled %d elements, window %r allows at most %d (values %r)' % (len(it.pulled), w, limit, v)
    return True, 'pulled %d <= %d' % (len(it.pulled), limit)


# ------------------------------------------------------------------ E1
class PullCap(Exception):
    pass


class Counting:
    """iterator that logs every pull; n=None: unbounded"""

    def __init__(self, n):
        self.n = n
        self.pulled = []

    def __iter__(self):
        return self

    def __next__(self):
        i = len(self.pulled)
        if self.n is not None and i >= self.n:
            raise StopIteration
        if self.n is None and i >= 120:
            raise PullCap('unbounded iterator pulled %d times' % i)    # a drained unbounded iterator would never terminate
        self.pulled.append(i)
        return {'v': i}


class CountingSeq:
    """lazily produced sequence with __getitem__ only (no __len__ short cut): logs the indexes asked for"""

    def __init__(self, n):
        self.n = n
        self.asked = []

    def __getitem__(self, i):
        self.asked.append(i)
        if i < 0 or (self.n is not None and i >= self.n):
            raise IndexError(i)
        return {'v': i}

    def __len__(self):
        self.asked.append('len')
        if self.n is None:
            raise RuntimeError('len() of an unbounded sequence')
        return self.n


T_LAZY = cooked('<dtml-in it mapping start=st size=sz orphan=orp overlap=ov><dtml-call "rec(v)"></dtml-in>')
T_LAZY_ALL = cooked('<dtml-in it mapping start=st end=en size=sz orphan=orp overlap=ov><dtml-var v>,</dtml-in>')
T_LAZY_END = cooked('<dtml-in it mapping end=en size=sz orphan=orp><dtml-call "rec(v)"></dtml-in>')
T_LAZY_EXPR = cooked('<dtml-in "it" mapping start=st size=sz orphan=orp overlap=ov><dtml-call "rec(v)"><dtml-if sequence-end><dtml-call "rec2(_[\'next-sequence\'])"></dtml-if></dtml-in>')
T_UNB = cooked('<dtml-in it mapping><dtml-call "rec(v)"></dtml-in>')
T_LAZY_NEXT = cooked('<dtml-in it mapping next start=st size=sz orphan=orp overlap=ov>N<dtml-var next-sequence-start-index></dtml-in>')


def in_order(p):
    for i in range(len(p)):
        if p[i] != i:
            return False
    return True


def make_finite(nmax, t, use_end=False):
    def ob(n: int, start: int, size: int, orphan: int, overlap: int) -> bool:
        it = Counting(n)
        shown = []
        if use_end:
            t(it=it, en=start, sz=size, orp=orphan, rec=shown.append)
            w = C11.ref_window(0, start, size, orphan, n)
        else:
            t(it=it, st=start, sz=size, orp=orphan, ov=overlap, rec=shown.append, rec2=lambda x: None)
            w = C11.ref_window(start, 0, size, orphan, n)
        if not in_order(it.pulled):
            return False
        if shown != list(range(w[0] - 1, w[1])):
            return False
        return len(it.pulled) <= w[1] + size + orphan
    ob.__name__ = 'ob_finite_%d%s' % (nmax, '_end' if use_end else '')
    return ob


def ob_unbounded(start: int, size: int, orphan: int, overlap: int) -> bool:
    """a batch of an unbounded iterator renders and terminates"""
    it = Counting(None)
    shown = []
    try:
        T_LAZY(it=it, st=start, sz=size, orp=orphan, ov=overlap, rec=shown.append)
    except PullCap:
        return False
    if shown != list(range(start - 1, start - 1 + size)):
        return False
    return in_order(it.pulled) and len(it.pulled) <= start - 1 + size + size + orphan


def ob_unbounded_next(start: int, size: int, orphan: int, overlap: int) -> bool:
    """the 'next' link mode only needs the look-ahead batch"""
    it = Counting(None)
    try:
        out = T_LAZY_NEXT(it=it, st=start, sz=size, orp=orphan, ov=overlap)
    except PullCap:
        return False
    return out.startswith('N') and in_order(it.pulled) and len(it.pulled) <= start - 1 + size + size + orphan


def ob_getitem_seq(n: int, start: int, size: int, orphan: int, overlap: int) -> bool:
    """a lazily computed sequence with __getitem__: indexes asked stay within the window plus look-ahead; len() only after an IndexError"""
    seq = CountingSeq(n)
    shown = []
    T_LAZY(it=seq, st=start, sz=size, orp=orphan, ov=overlap, rec=shown.append)
    w = C11.ref_window(start, 0, size, orphan, n)
    if shown != list(range(w[0] - 1, w[1])):
        return False
    beyond = False
    for a in seq.asked:
        if a == 'len':
            if not beyond:
                return False
        else:
            if a < 0:
                return False
            if a >= n:
                beyond = True                     # nothing to produce: the sequence is known to be exhausted
            elif a > w[1] + size + orphan - 1:
                return False                      # element a was produced although it lies beyond window + look-ahead
    return True


T_LAZY_REV = cooked('<dtml-in it mapping reverse_expr="r" start=st size=sz orphan=orp overlap=ov><dtml-call "rec(v)"></dtml-in>')


def ob_reverse_expr(r: bool, start: int, size: int, orphan: int, overlap: int) -> bool:
    """reverse_expr that evaluates false requests no reversal: the lazy bound applies (a true value is excepted by the statement)"""
    it = Counting(None if not r else 7)
    shown = []
    try:
        T_LAZY_REV(it=it, r=r, st=start, sz=size, orp=orphan, ov=overlap, rec=shown.append)
    except PullCap:
        return False
    if r:
        return len(shown) >= 1
    return shown == list(range(start - 1, start - 1 + size)) and in_order(it.pulled) and len(it.pulled) <= start - 1 + size + size + orphan


T_LAZY_PREVB = cooked('<dtml-in it mapping start=st size=sz orphan=orp overlap=ov><dtml-call "rec(v)"><dtml-if sequence-start><dtml-in previous-batches mapping><dtml-call "rec2(_[\'batch-start-index\'])"></dtml-in></dtml-if></dtml-in>')
T_LAZY_SE = cooked('<dtml-in it mapping start=st end=en orphan=orp><dtml-call "rec(v)"><dtml-if sequence-end><dtml-call "rec2(_[\'next-sequence\'])"></dtml-if></dtml-in>')


def ob_previous_batches(start: int, size: int, orphan: int, overlap: int) -> bool:
    """previous-batches only needs elements BEFORE the window: the lazy bound still applies (an unbounded iterator terminates)"""
    it = Counting(None)
    shown, prevs = [], []
    try:
        T_LAZY_PREVB(it=it, st=start, sz=size, orp=orphan, ov=overlap, rec=shown.append, rec2=prevs.append)
    except PullCap:
        return False
    return shown == list(range(start - 1, start - 1 + size)) and in_order(it.pulled) and len(it.pulled) <= start - 1 + size + size + orphan


def ob_start_end(start: int, length: int, orphan: int) -> bool:
    """window given by start= and end= (no size=): the look-ahead batch has the window's own size"""
    end = start + length - 1
    it = Counting(None)
    shown = []
    try:
        T_LAZY_SE(it=it, st=start, en=end, orp=orphan, rec=shown.append, rec2=lambda x: None)
    except PullCap:
        return False
    return shown == list(range(start - 1, end)) and in_order(it.pulled) and len(it.pulled) <= end + length + orphan


def ob_unbatched(n: int) -> bool:
    """unbatched rendering pulls every element exactly once"""
    it = Counting(n)
    shown = []
    T_UNB(it=it, rec=shown.append)
    return it.pulled == list(range(n)) and shown == list(range(n))


def explain(obname, args):
    return ''


OBLIGATIONS = []
for _want in (None, 'next'):
    OBLIGATIONS.append(Ob('e2_touches_%s' % (_want or 'window'), make_e2(_want), kind='custom', timeout=200, replay=replay_e2, twin=False, engine='E2 astsmt (z3 Int)',
                          data='start, end >= 0, size >= 1, orphan >= 0, 0 <= overlap < size, n >= 1: all integers', selectors='touched indexes of the window computation%s' % (' and the next-batch computation' if _want else ''),
                          bounds='no bound on the integers; sequence abstracted to its length with lazy (SequenceFromIter) index semantics',
                          outside='size < 1 (defaulting); previous-batch computation (needs earlier elements, already pulled)', stubs='sequence abstracted to its length n'))
NM = tier(6, 9)
PRE = ['1 <= n <= %d' % NM, '1 <= start <= %d' % (NM + 1), '1 <= size <= 4', '0 <= orphan <= 3', '0 <= overlap <= 2', 'overlap < size']
OBLIGATIONS.append(Ob('finite_start', make_finite(NM, T_LAZY), PRE, timeout=tier(280, 1200), data='iterator length n <= %d, start 1..n+1, size 1..4, orphan 0..3, overlap < size (all symbolic)' % NM, selectors='start/size/orphan/overlap via variables, iterator'))
OBLIGATIONS.append(Ob('finite_expr', make_finite(NM, T_LAZY_EXPR), PRE, timeout=tier(280, 1200), data='as finite_start', selectors='sequence from an expression; body reads next-sequence'))
OBLIGATIONS.append(Ob('finite_end', make_finite(NM, T_LAZY_END, True), PRE, timeout=tier(280, 1200), data='iterator length n, end (passed as "start" argument) 1..n+1, size, orphan', selectors='end/size/orphan without start'))
PREU = ['1 <= start <= 6', '1 <= size <= 4', '0 <= orphan <= 3', '0 <= overlap <= 2', 'overlap < size']
OBLIGATIONS.append(Ob('unbounded', ob_unbounded, PREU, timeout=tier(250, 900), data='start 1..6, size 1..4, orphan 0..3, overlap < size', selectors='unbounded iterator'))
OBLIGATIONS.append(Ob('unbounded_next', ob_unbounded_next, PREU, timeout=tier(250, 900), data='as unbounded', selectors='unbounded iterator, "next" link mode'))
OBLIGATIONS.append(Ob('getitem_seq', ob_getitem_seq, PRE, timeout=tier(280, 1200), data='as finite_start', selectors='lazy sequence with __getitem__/__len__ (no iterator wrapper)'))
OBLIGATIONS.append(Ob('unbatched', ob_unbatched, ['0 <= n <= %d' % tier(6, 10)], timeout=tier(200, 600), data='iterator length n', selectors='unbatched dtml-in over an iterator'))
OBLIGATIONS.append(Ob('reverse_expr_false', ob_reverse_expr, PREU, timeout=tier(250, 900), data='truth value of reverse_expr, start, size, orphan, overlap', selectors='batched dtml-in with reverse_expr over an unbounded iterator (finite when the expression is true)'))
OBLIGATIONS.append(Ob('previous_batches', ob_previous_batches, ['2 <= start <= 7', '1 <= size <= 3', '0 <= orphan <= 2', '0 <= overlap <= 1', 'overlap < size'], timeout=tier(280, 900),
                      data='start 2..7, size 1..3, orphan 0..2, overlap < size', selectors='body reads previous-batches; unbounded iterator'))
OBLIGATIONS.append(Ob('start_end_no_size', ob_start_end, ['1 <= start <= 5', '1 <= length <= 6', '0 <= orphan <= 2'], timeout=tier(280, 900),
                      data='start 1..5, window length 1..6 (end = start+length-1), orphan 0..2', selectors='start= and end= without size=; unbounded iterator'))


# ---------------------------------------------------------------- wave 3: the SAME compiled tag rendered re-entrantly (recursive template)
T_REC = cooked('<dtml-in it mapping start=st size=sz><dtml-call "rec(tag, v)"><dtml-if "kid is not None and v == at">'
               '<dtml-call "T(None, _, it=kid, st=1, tag=tag + 1, kid=None)"></dtml-if>'
               '<dtml-if sequence-end><dtml-call "rec2(tag, _[\'next-sequence\'])"></dtml-if></dtml-in>')


def ob_reentrant(start: int, size: int, pos: int, kn: int, topn: int) -> bool:
    """a recursive template: while the outer batched loop is at element `at` (any position of its window) the same template - the same
    compiled dtml-in tag - renders the first batch of a child iterator. Both iterators obey the pull bound, both windows and both
    next-sequence flags are their own."""
    top = Counting(None if topn == 0 else start - 1 + size + topn - 1)     # unbounded, or ending exactly at / just after the window
    kid = Counting(None if kn == 0 else kn)
    at = start - 1 + pos
    shown, flags = [], []
    try:
        T_REC(T=T_REC, it=top, st=start, sz=size, tag=0, kid=kid, at=at, rec=lambda t, v: shown.append((t, v)), rec2=lambda t, f: flags.append((t, bool(f))))
    except PullCap:
        return False
    kn_eff = size if kn == 0 else min(size, kn)
    exp = []
    for v in range(start - 1, start - 1 + size):
        exp.append((0, v))
        if v == at:
            exp += [(1, j) for j in range(kn_eff)]
    if shown != exp:
        return False
    top_more = topn != 1
    kid_more = kn == 0 or kn > size
    if sorted(flags) != sorted([(0, top_more), (1, kid_more)]):
        return False
    if not in_order(top.pulled) or not in_order(kid.pulled):
        return False
    return len(top.pulled) <= start - 1 + size + size and len(kid.pulled) <= size + size


OBLIGATIONS.append(Ob('reentrant_same_tag', ob_reentrant, ['1 <= start <= 3', '1 <= size <= 3', '0 <= pos < size', '0 <= kn <= 4', '0 <= topn <= 2'], timeout=tier(280, 900),
                      data='start 1..3, size 1..3, position of the recursing element inside the window, child length (0 = unbounded, 1..4), outer iterator unbounded / ending with the window / one element after it',
                      selectors='template that calls itself from inside its own batched dtml-in (two iterators, one compiled tag)'))


# ---------------------------------------------------------------- wave 4
T_NESTED_SAME = cooked('<dtml-in it mapping size=sz><dtml-call "rec(0, v)"><dtml-in it mapping size=sz><dtml-call "rec(1, v)"></dtml-in></dtml-in>')


def ob_nested_same_name(size: int, n: int) -> bool:
    """a nested dtml-in over the SAME name (a generator): both loops walk the one adapted sequence - the inner loop shows the same first
    batch for every outer element, elements are pulled once, and the total stays within window + look-ahead"""
    it = Counting(None if n == 0 else n)
    rows = []
    try:
        T_NESTED_SAME(it=it, sz=size, rec=lambda t, v: rows.append((t, v)))
    except PullCap:
        return False
    shown = size if n == 0 else min(size, n)
    exp = []
    for v in range(shown):
        exp.append((0, v))
        exp += [(1, w) for w in range(shown)]
    return rows == exp and in_order(it.pulled) and len(it.pulled) <= size + size


OBLIGATIONS.append(Ob('nested_same_name', ob_nested_same_name, ['1 <= size <= 3', '0 <= n <= 5'], timeout=tier(250, 900), data='size 1..3, generator length (0 = unbounded, 1..5)',
                      selectors='batched dtml-in nested in a batched dtml-in over the same generator, given by name'))


class SizedLazy:
    """lazily produced collection that knows its size but is not subscriptable (a result set with a cheap row count and a row-fetching
    __iter__): dtml-in must not fetch it completely for one batch"""

    def __init__(self, n):
        self.n = n
        self.pulled = []

    def __len__(self):
        return self.n

    def __iter__(self):
        for i in range(self.n):
            self.pulled.append(i)
            yield {'v': i}


def ob_sized_lazy(n: int, start: int, size: int, orphan: int, overlap: int) -> bool:
    seq = SizedLazy(n)
    shown = []
    T_LAZY(it=seq, st=start, sz=size, orp=orphan, ov=overlap, rec=shown.append)
    w = C11.ref_window(start, 0, size, orphan, n)
    if shown != list(range(w[0] - 1, w[1])):
        return False
    return in_order(seq.pulled) and len(seq.pulled) <= w[1] + size + orphan


OBLIGATIONS.append(Ob('sized_lazy_collection', ob_sized_lazy, PRE, timeout=tier(280, 1200), data='as finite_start', selectors='collection with __len__ and a lazy __iter__ but no __getitem__'))


# ---------------------------------------------------------------- wave 5: what the lazy source yields / claims about itself
class CountingPlain:
    """iterator of plain values (some of them None / 0 / '') that logs every pull; optional __length_hint__ that is exact, too low or
    too high (PEP 424 allows an inexact hint)"""

    def __init__(self, values, hint=None):
        self.values, self.pulled = list(values), []
        if hint is not None:
            self._hint = hint

    def __iter__(self):
        return self

    def __next__(self):
        i = len(self.pulled)
        if i >= len(self.values):
            raise StopIteration
        self.pulled.append(i)
        return self.values[i]

    def __length_hint__(self):
        h = getattr(self, '_hint', None)
        if h is None:
            return NotImplemented
        return max(0, len(self.values) - len(self.pulled) + h)


T_PLAIN_UNB = cooked('<dtml-in it><dtml-call "rec(_[\'sequence-index\'], _[\'sequence-item\'])"></dtml-in>')
T_PLAIN_B = cooked('<dtml-in it start=st size=sz><dtml-call "rec(_[\'sequence-index\'], _[\'sequence-item\'])"></dtml-in>')
FALSY = [None, 0, 'x']


def ob_lazy_values_and_hints(n: int, k1: int, k2: int, k3: int, k4: int, hint: int, start: int, size: int) -> bool:
    """a lazy source may yield None / 0 / '' and may give an inexact length hint: unbatched rendering still shows every element once, in
    order; a batch shows its window and stays within the pull bound"""
    nn = 0 if n <= 0 else 1 if n == 1 else 2 if n == 2 else 3
    ks = [0 if k <= 0 else 1 if k == 1 else 2 for k in (k1, k2, k3, k4)]
    h = None if hint <= 0 else 0 if hint == 1 else -1 if hint == 2 else 2
    st = 1 if start <= 1 else 2 if start == 2 else 3
    sz = 1 if size <= 1 else 2
    from crosshair.tracers import NoTracing
    with NoTracing():
        vals = [FALSY[k] for k in ks[:nn]]
        it = CountingPlain(vals, h)
        rows = []
        T_PLAIN_UNB(it=it, rec=lambda i, v: rows.append((i, v)))
        if rows != list(enumerate(vals)) or it.pulled != list(range(nn)):
            return False
        if nn == 0:
            return True
        it2 = CountingPlain(vals, h)
        rows2 = []
        T_PLAIN_B(it=it2, st=st, sz=sz, rec=lambda i, v: rows2.append((i, v)))
        w = C11.ref_window(st, 0, sz, 0, nn)
        return rows2 == [(i, vals[i]) for i in range(w[0] - 1, w[1])] and in_order(it2.pulled) and len(it2.pulled) <= w[1] + sz


OBLIGATIONS.append(Ob('lazy_values_and_length_hints', ob_lazy_values_and_hints, ['0 <= n <= 3', '0 <= hint <= 3', '1 <= start <= 3', '1 <= size <= 2', 'k4 == 0'] + ['0 <= k%d <= 2' % i for i in (1, 2, 3)],
                      timeout=tier(280, 900), path_timeout=60, data='-',
                      selectors='iterator of up to 3 values each selected from None / 0 / "x", with no / exact / too low / too high __length_hint__; unbatched, and batched with start 1..3 size 1..2',
                      stubs='render runs untraced once the selectors are fixed on the path'))
