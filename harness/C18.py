"""C18 - concurrent renders of one shared template give sequential results (engine E3: SMT schedule synthesis + replay)."""
import threading
import time

from DocumentTemplate import DT_String
from vlib import schedsmt
from vlib.ob import Ob, tier
from harness.common import HTML, String

EXPLANATION = (
    'E3: the shared objects (template instance, every compiled tag object reachable from its block list, COOKLOCK) are '
    'instrumented in the harness; each thread body is run alone on a fresh instance to get its solo trace of shared reads/writes '
    'and its solo result; z3 decides whether ANY total order of the events (program order, lock mutual exclusion, reads-from) lets '
    'a read observe a value written by another thread that differs from what it saw solo. unsat = every interleaving of these '
    'traces (any number of pre-emptions, at shared-access granularity) reproduces the solo executions; sat = the schedule is '
    'replayed on real threads gated at the hooks and only a replay whose per-thread result differs from the solo result counts.')

ASSUMES = ['sequential consistency at attribute-access granularity (the GIL makes each attribute access atomic)',
           'objects not reachable from the template / its block list (module globals such as String.commands, whose only write is an idempotent import) are not tracked',
           'the analysis is predictive: it covers the interleavings of the recorded solo traces up to the first foreign read']

DT_String.COOKLOCK = schedsmt.LogLock(DT_String.COOKLOCK)
import DocumentTemplate.DT_Try, DocumentTemplate.DT_In, DocumentTemplate.DT_Var, DocumentTemplate.DT_Let, DocumentTemplate.DT_With, DocumentTemplate.DT_Raise, DocumentTemplate.DT_If  # noqa: E401,E402
N_MODULE_BUFFERS = schedsmt.instrument_module_buffers()


class Guarded(HTML):
    """template class that supplies guards -> expressions compile lazily in restricted mode (Eval.rcode written at first render)"""

    def guarded_getattr(self, inst, name):
        return getattr(inst, name)

    def guarded_getitem(self, seq, i):
        return seq[i]


class Obj:
    def __init__(self, who):
        self.who = who


class Obj2:
    def __init__(self, name, label):
        self.name, self.label = name, label


class TNode:
    def __init__(self, name, kids=()):
        self.name, self._kids = name, list(kids)

    def kids(self):
        return self._kids

    def tpId(self):
        return self.name

    def tpURL(self):
        return self.name


class Resp:
    def setCookie(self, *a, **k):
        pass


import TreeDisplay      # noqa: E402,F401

from TreeDisplay.TreeTag import encode_seq as _enc      # noqa: E402
TREE_COOKIE = _enc([['r']])
TREE_EXP_A = _enc(['r', 'a'])
TREE_EXP_B = _enc(['r', 'b'])

DATA = [{'a': 2, 'b': 1, 'i': 0}, {'a': 1, 'b': 2, 'i': 1}, {'a': 3, 'b': 0, 'i': 2}]
SUB = None


def call_kw(t, ns):
    ns = dict(ns)
    client = ns.pop('__client__', None)
    if client is not None:
        return t(client, **ns)
    return t(**ns)


ALLBLOCKS = ('<dtml-in s mapping sort=a>&dtml-i;,</dtml-in><dtml-if c>x<dtml-elif d>w<dtml-else>y</dtml-if>'
             '<dtml-with w mapping><dtml-var "q+1"></dtml-with><dtml-let z="q2*2" y=c><dtml-var z>.<dtml-var y></dtml-let>'
             '<dtml-try><dtml-var "1/q2"><dtml-except ZeroDivisionError>div<dtml-else>ok</dtml-try>'
             '<dtml-unless c>u</dtml-unless><dtml-in s mapping size=2 start=st><dtml-var a></dtml-in>'
             '<dtml-try><dtml-raise KeyError>k</dtml-raise><dtml-except>r</dtml-try><dtml-comment>c</dtml-comment><dtml-call "q2+1">')

SCEN = {
    'sort_expr': (lambda: HTML('<dtml-in s mapping sort_expr="k">&dtml-i;,</dtml-in>'), True,
                  {'A': dict(s=DATA, k='a'), 'B': dict(s=DATA, k='b')}),
    'sort_expr_batch': (lambda: HTML('<dtml-in s mapping sort_expr="k" size=5>&dtml-i;,</dtml-in>'), True,
                        {'A': dict(s=DATA, k='a'), 'B': dict(s=DATA, k='b')}),
    'reverse_expr': (lambda: HTML('<dtml-in s mapping sort=a reverse_expr="r">&dtml-i;,</dtml-in>'), True,
                     {'A': dict(s=DATA, r=1), 'B': dict(s=DATA, r=0)}),
    'all_blocks': (lambda: HTML(ALLBLOCKS), True,
                   {'A': dict(s=DATA, c=1, d=0, w={'q': 1}, q2=2, st=1), 'B': dict(s=DATA, c=0, d=1, w={'q': 5}, q2=0, st=2)}),
    'restricted_exprs': (lambda: Guarded('<dtml-var "x+1"><dtml-if "x > 1">big</dtml-if><dtml-in "s" mapping sort_expr="k"><dtml-var a></dtml-in>'), True,
                         {'A': dict(x=1, s=DATA, k='a'), 'B': dict(x=5, s=DATA, k='b')}),
    'cook_race': (lambda: HTML('head[<dtml-var x>]<dtml-if c>tail[<dtml-var y>]</dtml-if>end<dtml-in s mapping sort_expr="k">&dtml-i;</dtml-in>'), False,
                  {'A': dict(x='xA', y='yA', c=1, s=DATA, k='a'), 'B': dict(x='xB', y='yB', c=1, s=DATA, k='b')}),
    'cook_race_string': (lambda: String('%(x)s|%(if c)[T%(y)s%(if c)]|%(in s mapping)[%(i)s%(in s)]'), False,
                         {'A': dict(x='xA', y='yA', c=1, s=DATA), 'B': dict(x='xB', y='yB', c=0, s=DATA)}),
    'batch_vars': (lambda: HTML('<dtml-in s mapping size=sz start=st overlap=ov>&dtml-i;<dtml-if sequence-end>|<dtml-var next-sequence-start-number missing=-></dtml-if></dtml-in>'), True,
                   {'A': dict(s=DATA, sz=1, st=1, ov=0), 'B': dict(s=DATA, sz=2, st=2, ov=1)}),
    'subtemplate': (lambda: HTML('<dtml-var sub>|<dtml-with w mapping><dtml-var sub></dtml-with>', sub=HTML('<dtml-in s mapping sort_expr="k">&dtml-i;</dtml-in><dtml-var q missing=none>')), True,
                    {'A': dict(s=DATA, k='a', w={'q': 'A'}), 'B': dict(s=DATA, k='b', w={'q': 'B'})}),
    'try_error_tb': (lambda: HTML('<dtml-try><dtml-var "10/q2"><dtml-var missingname><dtml-except ZeroDivisionError>Z[<dtml-var error_type>|<dtml-var "_.len(error_tb) > 0">|<dtml-var "\'KeyError\' in error_tb">]<dtml-except>K[<dtml-var error_type>|<dtml-var "\'ZeroDivision\' in error_tb">]</dtml-try>'), True,
                     {'A': dict(q2=0), 'B': dict(q2=5)}),
    'with_only': (lambda: HTML('<dtml-with w only mapping><dtml-var who>-<dtml-var "_.has_key(\'x\')">-<dtml-in s mapping><dtml-var a></dtml-in></dtml-with>|<dtml-with o only><dtml-var who></dtml-with>'), True,
                  {'A': dict(w={'who': 'alice', 's': DATA[:2]}, o=Obj('oa'), x=1), 'B': dict(w={'who': 'bob', 's': DATA[1:]}, o=Obj('ob'))}),
    'tree': (lambda: HTML('<dtml-tree root branches=kids><dtml-var name></dtml-tree>'), True,
             {'A': dict(root=TNode('ra', [TNode('a1'), TNode('a2')]), URL='u', RESPONSE=Resp(), expand_all=1), 'B': dict(root=TNode('rb', [TNode('b1')]), URL='v', RESPONSE=Resp())}),
    'sort_userfn': (lambda: HTML('<dtml-in s mapping sort="a/mycmp">&dtml-i;,</dtml-in><dtml-in s mapping sort="b/mycmp,i">&dtml-i;</dtml-in>'), True,
                    {'A': dict(s=DATA, mycmp=lambda x, y: (x > y) - (x < y)), 'B': dict(s=DATA, mycmp=lambda x, y: (x < y) - (x > y))}),
    'tree_state': (lambda: HTML('<dtml-tree root branches=kids>[<dtml-var name>]</dtml-tree>'), True,
                   {'A': dict(root=TNode('r', [TNode('a', [TNode('a1')]), TNode('b', [TNode('b1')])]), URL='u', RESPONSE=Resp(), **{'tree-s': TREE_COOKIE, 'tree-e': TREE_EXP_A}),
                    'B': dict(root=TNode('r', [TNode('a', [TNode('a1')]), TNode('b', [TNode('b1')])]), URL='u', RESPONSE=Resp(), **{'tree-s': TREE_COOKIE, 'tree-e': TREE_EXP_B})}),
    'return_value': (lambda: HTML('a<dtml-if c><dtml-return "x * 2"></dtml-if>b<dtml-in s mapping><dtml-if "a == x"><dtml-return a></dtml-if></dtml-in>z'), True,
                     {'A': dict(c=1, x=21, s=DATA), 'B': dict(c=0, x=3, s=DATA)}),
    'return_in_try': (lambda: HTML('<dtml-try><dtml-return rv><dtml-finally><dtml-call "w.get(1)"></dtml-try>'), True,
                      {'A': dict(rv={'who': 'alpha'}, w={}), 'B': dict(rv={'who': 'beta'}, w={})}),
    'this_client': (lambda: HTML('<dtml-var "_.this.name">|<dtml-var name>|<dtml-with "_.this"><dtml-var label></dtml-with>'), True,
                    {'A': dict(__client__=Obj2('alpha', 'page-alpha')), 'B': dict(__client__=Obj2('beta', 'page-beta'))}),
    'vars_fmt': (lambda: HTML('<dtml-var x fmt="%05d"> <dtml-var t size=3 etc=".."> <dtml-var n null="nil"> <dtml-var u upper html_quote>&dtml.url_quote-u;'), True,
                 {'A': dict(x=1, t='abcdef', n=None, u='a<b'), 'B': dict(x=22, t='xy', n=3, u='c d')}),
}
THREE = {
    'sort_expr3': (lambda: HTML('<dtml-in s mapping sort_expr="k">&dtml-i;,</dtml-in>'), True,
                   {'A': dict(s=DATA, k='a'), 'B': dict(s=DATA, k='b'), 'C': dict(s=DATA, k='i')}),
    'cook_race3': (SCEN['cook_race'][0], False,
                   {'A': dict(x='xA', y='yA', c=1, s=DATA, k='a'), 'B': dict(x='xB', y='yB', c=1, s=DATA, k='b'), 'C': dict(x='xC', y='yC', c=0, s=DATA, k='i')}),
}
if tier(False, True):
    SCEN.update(THREE)


def solo_in_fresh_process(name, reverse):
    """every thread body alone on a fresh template, in the given order, in a FRESH interpreter -> {thread: repr(result)}"""
    import json
    import os
    import subprocess
    import sys
    code = ('import json, sys\nfrom harness import C18\nfrom vlib import schedsmt\n'
            'mk, cooked, inputs = C18.SCEN.get(%r) or C18.THREE[%r]\n'
            'items = list(inputs.items())\n'
            'if %r: items.reverse()\n'
            'tr, solo = schedsmt.run_solo(mk, dict(items), cooked, C18.call_kw)\n'
            'print("@@SOLO@@" + json.dumps({k: repr(v)[:300] for k, v in solo.items()}))\n' % (name, name, bool(reverse)))
    p = subprocess.run([sys.executable, '-c', code], capture_output=True, text=True, timeout=120, env=dict(os.environ))
    i = p.stdout.rfind('@@SOLO@@')
    if i < 0:
        return None
    return json.loads(p.stdout[i + 8:].strip().splitlines()[0])


def order_dependence(name):
    a, b = solo_in_fresh_process(name, False), solo_in_fresh_process(name, True)
    if a is None or b is None:
        return None
    return {k: (a[k], b.get(k)) for k in a if b.get(k) != a[k]}


def make(name):
    mk, cooked, inputs = SCEN[name]

    def run(extra=()):
        t0 = time.time()
        od = order_dependence(name)
        if od:
            return {'status': 'refuted', 'cex': {'scenario': name, 'schedule': [], 'fresh_process_order': True}, 'paths': 2, 'queries': 0, 'solver_s': 0.0,
                    'wall_s': round(time.time() - t0, 2), 'functions': [], 'samples': [],
                    'message': 'thread bodies rendered alone on fresh template objects in two fresh interpreters, in the orders A..Z and Z..A, give different results: %r' % (od,)}
        r = schedsmt.analyse(mk, inputs, cooked, call_kw)
        res = {'paths': r.get('candidates', 0) + 1, 'queries': r['queries'], 'solver_s': round(r['solver_s'], 3), 'wall_s': round(time.time() - t0, 2),
               'functions': ['shared objects of scenario %s: template + compiled tag objects (%d events, %d writes)' % (name, r['events'], r['writes'])],
               'samples': [{'scenario': name, 'events': r['events'], 'shared_writes': r['writes'], 'solo': r['solo'], 'benign_candidates': r['benign'][:3]}]}
        v = r['verdict']
        if v == 'unsat':
            res.update(status='confirmed', message=r['message'])
        elif v == 'violation':
            res.update(status='refuted', cex={'scenario': name, 'schedule': r['schedule'], 'amplify': r.get('amplify'), 'order_dependence': r.get('order_dependence', False), 'warm': bool(r.get('warm'))},
                       message='%s; replay on real threads: %r' % (r['message'], r['differs']))
        else:
            res.update(status='inconclusive', message='%s: %s' % (v, r.get('message')))
        return res
    return run


def replay(cex):
    name, order = cex['scenario'], cex['schedule']
    mk, cooked, inputs = SCEN.get(name) or THREE[name]
    worst = None
    if cex.get('fresh_process_order'):
        od = order_dependence(name)
        if od:
            return False, ('scenario %s: each thread body rendered alone on a fresh template object; in a fresh interpreter with the order A..Z and in another with Z..A the results '
                           'differ %r - state shared outside the template object (module-level cache) leaks from one render into another' % (name, od))
        return True, 'no order dependence on replay'
    if cex.get('order_dependence'):
        _t1, s1 = schedsmt.run_solo(mk, inputs, cooked, call_kw)
        _t2, s2 = schedsmt.run_solo(mk, dict(reversed(list(inputs.items()))), cooked, call_kw)
        _t3, s3 = schedsmt.run_solo(mk, inputs, cooked, call_kw)
        od = {k: (s1[k], s2.get(k), s3.get(k)) for k in s1 if s2.get(k) != s1[k] or s3.get(k) != s1[k]}
        if od:
            return False, ('scenario %s: each thread body rendered alone on a fresh template object, in the orders A..Z, Z..A, A..Z: results differ %r - another render '
                           'in the same process changes what a render produces (state shared outside the template object)' % (name, {k: tuple(repr(x)[:80] for x in v) for k, v in od.items()}))
        return True, 'no order dependence on replay'
    amp = cex.get('amplify')
    if amp:
        # cumulative corruption: re-run the deterministic amplification (steady-state traces, solver-made schedule, repeated
        # gated replays on ONE template object) and report the first round whose thread results differ from the solo results
        rnd, differs, done = schedsmt.amplify(mk, inputs, cooked, call_kw, tuple(amp['loc']))
        if rnd is not None:
            return False, ('scenario %s: race on %s.%s; after %d overlapping renderings of one template object (same interleaving each time) a thread no longer gets its '
                           'solo result: %r' % (name, amp['loc'][0], amp['loc'][1], rnd, {k: (repr(a)[:100], repr(b)[:100]) for k, (a, b) in differs.items()}))
        return True, 'amplification (%d rounds) did not reproduce a difference' % done
    warm = bool(cex.get('warm'))
    for attempt in range(3):
        traces, solo = schedsmt.run_solo(mk, inputs, cooked, call_kw, warm)
        got = schedsmt.replay(mk, inputs, cooked, call_kw, order, warm=warm)
        diff = {k: (solo[k], got.get(k)) for k in solo if got.get(k) != solo[k]}
        if diff:
            return False, 'scenario %s%s: with the synthesised schedule thread results differ from solo results: %r' % (
                name, ' (template rendered once beforehand by every thread body)' if warm else '', {k: (repr(a)[:100], repr(b)[:100]) for k, (a, b) in diff.items()})
        worst = got
    return True, 'schedule replayed 3 times without a difference: %r' % (worst,)


OBLIGATIONS = []
for _name in SCEN:
    _mk, _cooked, _inputs = SCEN[_name]
    OBLIGATIONS.append(Ob('sched_' + _name, make(_name), kind='custom', timeout=tier(200, 600), replay=replay, twin=False, engine='E3 schedsmt (z3 + gated replay)',
                          data='the schedule: a total order of all recorded shared accesses of %d threads (unbounded pre-emptions)' % len(_inputs),
                          selectors='scenario %s (%s), per-thread namespaces' % (_name, 'template cooked beforehand' if _cooked else 'first renders race to cook a fresh template'),
                          bounds='%d threads; the recorded solo traces of this scenario; at most 32 benign candidates replayed' % len(_inputs),
                          outside='races below attribute granularity or inside C code; objects not reachable from the template; behaviour after the first foreign read (handed to replay)',
                          stubs='__class__ of shared objects swapped for logging subclasses; COOKLOCK wrapped; dict attributes "args" wrapped'))
