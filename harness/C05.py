"""C05 - security guards mediate every read of client data; '_' names stay private (engine E1, two-run non-interference)."""
from zExceptions import Unauthorized
from DocumentTemplate._DocumentTemplate import InstanceDict, TemplateDict
from DocumentTemplate.DT_Util import Eval, ParseError

import TreeDisplay  # noqa: F401
from vlib.ob import Ob, tier
from harness.common import HTML, String

EXPLANATION = (
    'CrossHair renders each access channel twice on a template class that supplies guarded_getattr/guarded_getitem, with two '
    'different symbolic secrets. 2-safety by self-composition: if the guard refuses the secret, output/exception type must be '
    'identical for both secrets (the solver searches two secrets the output distinguishes); if the guard allows, any dependence '
    'of the output on the secret must be accompanied by a guard call for it. Underscore names: InstanceDict lookup of a symbolic '
    "key starting with '_' raises KeyError without touching the object; restricted expressions naming underscore attributes do "
    'not compile.')
ASSUMES = ['the guard is a stub that allows/refuses per (name or item key): the property is about mediation, not about Zope\'s policy',
           'reading keys of mapping items pushed by "dtml-in mapping"/"dtml-with mapping" is not in the statement\'s list and not asserted']


class G:
    """current guard state (reset per render)"""
    log = []
    deny_attr = ()
    deny_item = ()


class GT(HTML):
    def guarded_getattr(self, inst, name, *default):
        G.log.append(('attr', name))
        if name in G.deny_attr:
            raise Unauthorized(name)
        return getattr(inst, name)

    def guarded_getitem(self, ob, index):
        G.log.append(('item', index))
        v = ob[index]
        if index in G.deny_item or getattr(v, 'forbidden', False):
            raise Unauthorized('item %r' % (index,))
        return v


class Item:
    forbidden = False

    def __init__(self, **kw):
        self.__dict__.update(kw)

    def secretm(self):
        return self.secret

    def __str__(self):
        return 'I(%s)' % (self.pub,)

    def kids(self):
        return self._kids

    def tpValues(self):
        return self._kids

    def tpId(self):
        return getattr(self, 'nid', None) or self.pub

    def tpURL(self):
        return getattr(self, 'nid', None) or self.pub


class Response:
    def setCookie(self, *a, **k):
        pass


def cooked(src):
    t = GT(src)
    t.cook()
    return t


# channel: (template, builder(secret1, secret2) -> namespace kwargs, deny_attr, deny_item)
def two(s1, s2):
    return [Item(secret=s1, pub='p0'), Item(secret=s2, pub='p1')]


CH = {
    'client_name': ('<dtml-var secret>|<dtml-var pub>', lambda s, c: dict(__client__=Item(secret=s, pub='p')), ('secret',), ()),
    'with_obj': ('<dtml-with o><dtml-var secret>|<dtml-var pub></dtml-with>', lambda s, c: dict(o=Item(secret=s, pub='p')), ('secret',), ()),
    'with_only': ('<dtml-with o only><dtml-var secret></dtml-with>', lambda s, c: dict(o=Item(secret=s, pub='p')), ('secret',), ()),
    'with_if': ('<dtml-with o><dtml-if secret>T<dtml-else>F</dtml-if></dtml-with>', lambda s, c: dict(o=Item(secret=s, pub='p')), ('secret',), ()),
    'expr_attr': ('<dtml-var "o.secret">', lambda s, c: dict(o=Item(secret=s, pub='p')), ('secret',), ()),
    'expr_fstring': ('<dtml-var "f\'{o.secret}\'">|<dtml-let z="f\'{o.pub}\'"><dtml-var z></dtml-let>', lambda s, c: dict(o=Item(secret=s, pub='p')), ('secret',), ()),
    'expr_fstring_item': ('<dtml-var "f\'{o.d[1]}\'">', lambda s, c: dict(o=Item(d={1: s, 'pub': 1}, pub='p')), (), (1,)),
    'expr_item': ('<dtml-var "o.d[\'secret\']">', lambda s, c: dict(o=Item(d={'secret': s, 'pub': 1}, pub='p')), (), ('secret',)),
    'in_item': ('<dtml-in seq><dtml-var secret>,</dtml-in>', lambda s, c: dict(seq=[Item(secret='x', pub='p0'), Item(secret=s, pub='p1', forbidden=True)]), (), ()),
    'in_item_skip': ('<dtml-in seq skip_unauthorized><dtml-var secret>,</dtml-in>', lambda s, c: dict(seq=[Item(secret='x', pub='p0'), Item(secret=s, pub='p1', forbidden=True), Item(secret='z', pub='p2')]), (), ()),
    'in_item_batch': ('<dtml-in seq size=5><dtml-var secret>,</dtml-in>', lambda s, c: dict(seq=[Item(secret='x', pub='p0'), Item(secret=s, pub='p1', forbidden=True)]), (), ()),
    'in_item_nopush': ('<dtml-in seq no_push_item><dtml-var "_[\'sequence-item\'].pub">,</dtml-in>', lambda s, c: dict(seq=[Item(secret='x', pub='p0'), Item(secret='y', pub=s, forbidden=True)]), (), ()),
    'in_item_nopush_name': ('<dtml-in seq no_push_item><dtml-var sequence-item>,</dtml-in>', lambda s, c: dict(seq=[Item(secret='x', pub='p0'), Item(secret='y', pub=s, forbidden=True)]), (), ()),
    'in_item_nopush_batch': ('<dtml-in seq no_push_item size=4><dtml-var sequence-item>,</dtml-in>', lambda s, c: dict(seq=[Item(secret='x', pub='p0'), Item(secret='y', pub=s, forbidden=True)]), (), ()),
    'with_only_in_item': ('<dtml-with o only><dtml-in seq><dtml-var pub>,</dtml-in></dtml-with>', lambda s, c: dict(o=Item(pub='p', seq=[Item(pub='p0'), Item(pub=s, forbidden=True)])), (), ()),
    'with_only_expr_item': ('<dtml-with o only><dtml-var "d[\'secret\']"></dtml-with>', lambda s, c: dict(o=Item(pub='p', d={'secret': s})), (), ('secret',)),
    'with_in_item': ('<dtml-with o><dtml-in seq><dtml-var pub>,</dtml-in></dtml-with>', lambda s, c: dict(o=Item(pub='p', seq=[Item(pub='p0'), Item(pub=s, forbidden=True)])), (), ()),
    'in_attr': ('<dtml-in seq><dtml-var secret>,</dtml-in>', lambda s, c: dict(seq=two(s, c)), ('secret',), ()),
    'fmt_method': ('<dtml-var o fmt=secretm>', lambda s, c: dict(o=Item(secret=s, pub='p')), ('secretm',), ()),
    'tree_branches': ('<dtml-tree root branches=kids><dtml-var pub></dtml-tree>', lambda s, c: dict(root=Item(pub='r', _kids=[Item(pub=s, nid='n1', _kids=[])]), URL='u', RESPONSE=Response(), expand_all=1), ('kids',), ()),
    'tree_items': ('<dtml-tree root><dtml-var pub></dtml-tree>', lambda s, c: dict(root=Item(pub='r', _kids=[Item(pub=s, nid='n1', _kids=[], forbidden=True)]), URL='u', RESPONSE=Response(), expand_all=1), (), ()),
    # the channels the property's own anchor lists as "read with plain getattr"
    'seq_var': ('<dtml-in seq><dtml-var sequence-var-secret>,</dtml-in>', lambda s, c: dict(seq=two(s, c)), ('secret',), ()),
    'first_last': ('<dtml-in seq><dtml-if first-secret>F</dtml-if><dtml-if last-secret>L</dtml-if>,</dtml-in>', lambda s, c: dict(seq=two(s, c)), ('secret',), ()),
    'stat_count_min': ('<dtml-in seq><dtml-if sequence-end><dtml-var min-secret>|<dtml-var count-secret></dtml-if></dtml-in>', lambda s, c: dict(seq=two(s, c)), ('secret',), ()),
    'sort_single': ('<dtml-in seq sort=secret><dtml-var pub>,</dtml-in>', lambda s, c: dict(seq=two(s, c)), ('secret',), ()),
    'sort_multi': ('<dtml-in seq sort=secret,pub><dtml-var pub>,</dtml-in>', lambda s, c: dict(seq=two(s, c)), ('secret',), ()),
    # items of the NEXT / PREVIOUS batch are fetched with plain indexing for the batch-boundary variables
    'batch_boundary_item': ('<dtml-in seq size=1 skip_unauthorized><dtml-var next-sequence-start-item missing="-">,</dtml-in>', lambda s, c: dict(seq=[Item(secret='x', pub='p0'), Item(secret='y', pub=s, forbidden=True)]), (), ()),
    'batch_boundary_var': ('<dtml-in seq size=1 skip_unauthorized><dtml-var next-sequence-start-var-pub missing="-">,</dtml-in>', lambda s, c: dict(seq=[Item(secret='x', pub='p0'), Item(secret='y', pub=s, forbidden=True)]), (), ()),
    'tree_sort': ('<dtml-tree root sort=secret><dtml-var pub></dtml-tree>', lambda s, c: dict(root=Item(pub='r', _kids=[Item(pub='k0', secret=s, _kids=[]), Item(pub='k1', secret=c, _kids=[])]), URL='u', RESPONSE=Response(), expand_all=1), ('secret',), ()),
}
# the same channels read AFTER an unrestricted template (plain HTML, no guards) was rendered into the shared namespace, by name and
# from an expression: the including template's guards must still be in force
PLAINSUB = HTML('s<dtml-var pub missing="">')
PLAINSUB.cook()


def _after(build):
    def b(s, c):
        ns = build(s, c)
        ns['plainsub'] = PLAINSUB
        return ns
    return b


for _k in ('with_obj', 'with_only', 'expr_attr', 'expr_item', 'in_item', 'in_item_skip', 'in_item_batch', 'fmt_method', 'with_in_item', 'tree_items'):
    _src, _b, _da, _di = CH[_k]
    CH[_k + '_after_plain_sub'] = ('<dtml-var plainsub>|' + _src, _after(_b), _da, _di)
    CH[_k + '_after_plain_sub_expr'] = ('<dtml-var "plainsub(None, _)">|' + _src, _after(_b), _da, _di)
T = {k: cooked(v[0]) for k, v in CH.items()}


def render(key, s, c, refuse):
    src, build, deny_attr, deny_item = CH[key]
    G.log = []
    G.deny_attr = deny_attr if refuse else ()
    G.deny_item = deny_item if refuse else ()
    ns = build(s, c)
    if not refuse:
        for v in ns.values():
            for it in (v if isinstance(v, list) else [v]):
                if isinstance(it, Item):
                    it.forbidden = False
                    for k in getattr(it, '_kids', []):
                        k.forbidden = False
    client = ns.pop('__client__', None)
    try:
        out = ('ok', T[key](client, **ns))
    except Unauthorized:
        out = ('exc', 'Unauthorized')
    except KeyError:
        out = ('exc', 'KeyError')
    return out, list(G.log)


def guarded_names(key):
    src, build, deny_attr, deny_item = CH[key]
    return deny_attr, deny_item


def make(key):
    def ob(a: str, b: str, c: str, refuse: bool) -> bool:
        out_a, log_a = render(key, a, c, refuse)
        out_b, log_b = render(key, b, c, refuse)
        if refuse:
            return out_a == out_b              # refused data never reaches output, namespace or sort order
        if out_a == out_b:
            return True
        # the output depends on the secret: the guard must have been asked for it
        deny_attr, deny_item = guarded_names(key)
        asked = False
        for kind, name in log_a:
            if (kind == 'attr' and name in deny_attr) or (kind == 'item' and (name in deny_item or not deny_attr and not deny_item)):
                asked = True
        return asked
    ob.__name__ = 'ob_chan_' + key
    return ob


# ------------------------------------------------------------------ underscore names
class Loud:
    def __init__(self):
        object.__setattr__(self, 'touched', [])

    def __getattr__(self, name):
        self.touched.append(name)
        return 'leak:' + name


def ob_underscore_instdict(k: str, guarded: bool) -> bool:
    o = Loud()
    md = TemplateDict()
    md.guarded_getattr = (lambda inst, name: getattr(inst, name)) if guarded else None
    d = InstanceDict(o, md)
    try:
        d['_' + k]
    except KeyError:
        return o.touched == [] or ('_' + k) == '__str__'
    return ('_' + k) == '__str__'


T_US = {name: cooked('<dtml-var %s missing=none>' % name) for name in ('_x', '__dict__', '_', '__class__')}
T_US_PLAIN = {name: HTML('<dtml-var %s missing=none>' % name) for name in ('_x', '__dict__', '__class__')}


def ob_underscore_render(k: int, guarded: bool, viawith: bool) -> bool:
    """names starting with '_' are never resolved from a client object (plain and guarded templates, client and with-object)"""
    if k == 0:
        name = '_x'
    elif k == 1:
        name = '__dict__'
    else:
        name = '__class__'
    o = Loud()
    t = T_US[name] if guarded else T_US_PLAIN[name]
    G.log, G.deny_attr, G.deny_item = [], (), ()
    out = t(o)
    return out == 'none' and o.touched == []


BAD_EXPRS = ['_x', 'o._y', 'o.__class__', '_x.y', 'o.f()._z', '[a for a in o._y]', 'o.__dict__["k"]', '__import__("os")',
             "f'{o._y}'", "rf'{o.__class__}'", "F'{_x}'", "f'{o._y!r:>4}'", "(lambda: o._y)()", "o._y if 1 else 0"]


def ob_restricted_compile(k: int) -> bool:
    idx = 0
    for i in range(len(BAD_EXPRS)):
        if k == i:
            idx = i
    src = '<dtml-var "%s">' % BAD_EXPRS[idx].replace('"', "'")
    t = GT(src)
    try:
        t.cook()
        out = t(o=Item(_y=[1], pub='p'), _x=5)
    except (ParseError, SyntaxError, NameError, KeyError, Unauthorized, TypeError, AttributeError, ImportError):
        return True
    return False


T_SKIP_IN = cooked('<dtml-in seq skip_unauthorized><dtml-var pub>,</dtml-in>')
T_SKIP_IN_B = cooked('<dtml-in seq skip_unauthorized size=9><dtml-var pub>,</dtml-in>')
T_SKIP_TREE = cooked('<dtml-tree root skip_unauthorized>[<dtml-var pub>]</dtml-tree>')


def ob_skip_in(f0: bool, f1: bool, f2: bool, f3: bool, f4: bool, batch: bool) -> bool:
    """dtml-in skip_unauthorized shows exactly the items the guard allows, in order"""
    fs = [f0, f1, f2, f3, f4]
    G.log, G.deny_attr, G.deny_item = [], (), ()
    seq = [Item(pub='p%d' % i, forbidden=fs[i]) for i in range(5)]
    out = (T_SKIP_IN_B if batch else T_SKIP_IN)(seq=seq)
    return out == ''.join('p%d,' % i for i in range(5) if not fs[i])


def ob_skip_tree(f0: bool, f1: bool, f2: bool, f3: bool, f4: bool) -> bool:
    """dtml-tree skip_unauthorized shows exactly the branches the guard allows, in order"""
    fs = [f0, f1, f2, f3, f4]
    G.log, G.deny_attr, G.deny_item = [], (), ()
    root = Item(pub='r', nid='r', _kids=[Item(pub='k%d' % i, nid='n%d' % i, _kids=[], forbidden=fs[i]) for i in range(5)])
    out = T_SKIP_TREE(root=root, URL='u', RESPONSE=Response(), expand_all=1)
    shown = []
    pos = out.find('[')
    while pos >= 0:
        end = out.find(']', pos)
        shown.append(out[pos + 1:end])
        pos = out.find('[', end)
    return shown == ['k%d' % i for i in range(5) if not fs[i]]


def explain(obname, args):
    if obname.startswith('chan_'):
        key = obname[5:]
        a, b, c, refuse = args['a'], args['b'], args['c'], args['refuse']
        return 'secret=%r -> %r ; secret=%r -> %r (guard %s)' % (a, render(key, a, c, refuse), b, render(key, b, c, refuse), 'refuses' if refuse else 'allows')
    return ''


OBLIGATIONS = []
NS = tier(2, 3)
for _k in CH:
    OBLIGATIONS.append(Ob('chan_' + _k, make(_k), ['len(a) <= %d' % NS, 'len(b) <= %d' % NS, 'len(c) <= 1'], timeout=tier(250, 900),
                          data='two secrets a, b (any str, len <= %d), a third value c, bit "guard refuses"' % NS, selectors='access channel %s: %s' % (_k, CH[_k][0]),
                          outside='secrets longer than %d characters; Zope\'s real security policy; acquisition wrappers' % NS))
OBLIGATIONS.append(Ob('underscore_instancedict', ob_underscore_instdict, ['len(k) <= 3'], timeout=tier(200, 600),
                      data="attribute name '_' + k, k any str of len <= 3; guarded bit", selectors='InstanceDict.__getitem__'))
OBLIGATIONS.append(Ob('underscore_render', ob_underscore_render, ['0 <= k <= 2'], timeout=tier(200, 600), data='guarded / via-with bits', selectors='names _x, __dict__, __class__ rendered against a client whose __getattr__ logs'))
OBLIGATIONS.append(Ob('restricted_compile', ob_restricted_compile, ['0 <= k < %d' % len(BAD_EXPRS)], timeout=tier(200, 600), data='-', selectors='restricted expressions %r' % BAD_EXPRS))
OBLIGATIONS.append(Ob('skip_in', ob_skip_in, timeout=tier(200, 600), data='which of 5 items the guard refuses (symbolic bits); batched or not', selectors='dtml-in skip_unauthorized'))
OBLIGATIONS.append(Ob('skip_tree', ob_skip_tree, timeout=tier(200, 600), data='which of 5 branches the guard refuses (symbolic bits)', selectors='dtml-tree skip_unauthorized expand_all'))


# ---------------------------------------------------------------- wave 4: the guard decides per OBJECT, every time
class GT2(HTML):
    """guard that refuses the attribute `report` on confidential objects only"""

    def guarded_getattr(self, inst, name, *default):
        G.log.append(('attr', name))
        if name == 'report' and getattr(inst, 'confidential', False):
            raise Unauthorized(name)
        return getattr(inst, name)

    def guarded_getitem(self, ob, index):
        return ob[index]


class Doc:
    def __init__(self, text, confidential):
        self.text, self.confidential = text, confidential

    def report(self):
        return 'R(' + self.text + ')'


SRC_PEROBJ = '<dtml-in docs><dtml-try><dtml-var sequence-item fmt=report><dtml-except>REFUSED</dtml-try>,</dtml-in>'
SRC_PEROBJ2 = ('<dtml-try><dtml-var d fmt=report><dtml-except>REFUSED</dtml-try>|<dtml-try><dtml-var "d.report()"><dtml-except>REFUSED</dtml-try>|'
               '<dtml-with d><dtml-try><dtml-var report><dtml-except>REFUSED</dtml-try></dtml-with>')


def ob_guard_per_object(c0: bool, c1: bool, c2: bool, s: str) -> bool:
    """method formats (fmt=), expressions and with-lookups ask the guard for EVERY object: a confidential object after public ones of the
    same class (same loop, same tag; or a later rendering of the same template) is still refused"""
    cs = [bool(c0), bool(c1), bool(c2)]
    s = 'sec' if len(s) > 0 else ''
    from crosshair.tracers import NoTracing
    with NoTracing():
        return _per_object(cs, s)


def _per_object(cs, s):
    # fresh template objects per path: what one path leaves on a compiled tag must not decide another path's verdict
    T_PEROBJ = GT2(SRC_PEROBJ)
    T_PEROBJ2 = GT2(SRC_PEROBJ2)
    G.log, G.deny_attr, G.deny_item = [], (), ()
    docs = [Doc('d%d' % i + (s if cs[i] else ''), cs[i]) for i in range(3)]
    out = T_PEROBJ(docs=docs)
    exp = ''.join(('REFUSED' if cs[i] else 'R(d%d)' % i) + ',' for i in range(3))
    if out != exp:
        return False
    for i in range(3):
        o = T_PEROBJ2(d=docs[i])
        one = 'REFUSED' if cs[i] else 'R(d%d)' % i
        if o != one + '|' + one + '|' + one:
            return False
    return True


OBLIGATIONS.append(Ob('guard_asked_per_object', ob_guard_per_object, ['len(s) <= 1'], timeout=tier(250, 900), data='-',
                      selectors='which of three objects of one class are confidential (3 bits): fmt=report on loop items, fmt= / expression / with-lookup on one template object rendered three times; guard refuses per object',
                      stubs='render runs untraced once the bits are fixed on the path'))


# ---------------------------------------------------------------- wave 5: the REAL guard mixin (security.RestrictedDTML) and Zope's policy objects
from AccessControl import Unauthorized as ACUnauthorized      # noqa: E402
from AccessControl.SecurityManagement import getSecurityManager      # noqa: E402
from ExtensionClass import Base      # noqa: E402
from DocumentTemplate.security import RestrictedDTML      # noqa: E402


class RT(RestrictedDTML, HTML):
    def getOwner(self):
        return None

    def __call__(self, client=None, REQUEST={}, RESPONSE=None, **kw):
        sm = getSecurityManager()
        sm.addContext(self)
        try:
            return HTML.__call__(self, client, REQUEST, **kw)
        finally:
            sm.removeContext(self)


class Pub(Base):
    __roles__ = None
    __allow_access_to_unprotected_subobjects__ = 1

    def __init__(self, n):
        self.n = n

    def __str__(self):
        return 'P%s' % self.n


class Priv(Base):
    __roles__ = ()

    def __init__(self, n):
        self.n = n

    def __str__(self):
        return 'SECRET%s' % self.n


SRC_RP = {
    (True, False): '<dtml-in seq skip_unauthorized><dtml-var sequence-item>:<dtml-var sequence-index>:<dtml-var "_[\'sequence-item\']">,</dtml-in>',
    (True, True): '<dtml-in seq skip_unauthorized size=9><dtml-var sequence-item>:<dtml-var sequence-index>:<dtml-var "_[\'sequence-item\']">,</dtml-in>',
    (False, False): '<dtml-in seq><dtml-var sequence-item>,</dtml-in>',
    (False, True): '<dtml-in seq size=9><dtml-var sequence-item>,</dtml-in>',
}


def ob_real_policy_items(p0: bool, p1: bool, p2: bool, ck: int, skip: bool, batch: bool) -> bool:
    """the guard mixin the package ships (RestrictedDTML) with Zope's policy: elements the policy refuses never reach the output of
    dtml-in, whatever kind of container delivers them (list, tuple, generator, iterator, map object, dict values view); with
    skip_unauthorized the others are shown with the sequence variables of their own positions, without it the rendering is refused"""
    privs = [bool(p0), bool(p1), bool(p2)]
    kind = 0 if ck <= 0 else 1 if ck == 1 else 2 if ck == 2 else 3 if ck == 3 else 4 if ck == 4 else 5
    sk, bt = bool(skip), bool(batch)
    from crosshair.tracers import NoTracing
    with NoTracing():
        items = [(Priv(i) if privs[i] else Pub(i)) for i in range(3)]
        if kind == 0:
            seq = list(items)
        elif kind == 1:
            seq = tuple(items)
        elif kind == 2:
            seq = (x for x in items)
        elif kind == 3:
            seq = iter(items)
        elif kind == 4:
            seq = map(lambda x: x, items)
        else:
            seq = dict(enumerate(items)).values()
        t = RT(SRC_RP[(sk, bt)])
        try:
            out = t(seq=seq)
        except (ACUnauthorized, Unauthorized):
            return (not sk) and any(privs)
        if 'SECRET' in out:
            return False
        if sk:
            return out == ''.join('P%d:%d:P%d,' % (i, i, i) for i in range(3) if not privs[i])
        return not any(privs) and out == 'P0,P1,P2,'


OBLIGATIONS.append(Ob('real_policy_items', ob_real_policy_items, ['0 <= ck <= 5'], timeout=tier(200, 600), path_timeout=60, data='-',
                      selectors='security.RestrictedDTML + AccessControl policy: which of 3 elements are private (__roles__ = ()), container kind list / tuple / generator / iterator / map / dict values, skip_unauthorized or not, batched or not',
                      stubs='render runs untraced once the selectors are fixed on the path'))
