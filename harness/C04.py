"""C04 - tainted values never contribute a raw '<' (engine E1: inductive step lemmas + whole-render glue)."""
from AccessControl.tainted import TaintedString

from DocumentTemplate import DT_Var
from vlib.ob import Ob, tier
from harness.common import HTML, String, cooked, ref_escape

EXPLANATION = (
    'Two layers, both CrossHair on the real functions. (a) Step lemmas: the value pipeline of Var.render is the composition '
    '"fmt stage; C-format; for f in modifiers: val = f(val); size; quoted()". Invariant I(v): "v still carries the '
    'TaintedString mark". For every stage f the lemma "I(v) => I(f(v))" is checked for every string content within the bound; '
    'one step from an arbitrary state satisfying I covers all 4096 modifier subsets in their fixed order without enumerating '
    'them. newline_to_br deliberately ends the marked phase (it escapes and emits <br />); for the stages that can follow it '
    'the lemma is "the number of raw < does not grow". (b) Glue: whole renders through HTML()/String() with a symbolic '
    'tainted value for each single option, pairs with html_quote, every special/method/C-style format, size/etc, null/'
    'missing, entity, EPFS and expr forms, asserting no raw < (minus documented <br />) and single (not double) escaping.')

N = tier(3, 4)       # stage lemmas
NG = tier(2, 3)      # glue renders
ALPHA = "<aAbB \n_'%3Cc25r/>&.,019" + '\xdf'   # alphabet for case-mapping stages (unrestricted Unicode case mapping is out of reach)
ALPHA_PRE = 'all(c in ALPHA for c in s)'

MODS = dict(DT_Var.modifiers)          # name -> function (live objects of /repo/src)
MARKED = ['url_quote', 'url_quote_plus', 'url_unquote', 'url_unquote_plus', 'lower', 'upper', 'capitalize',
          'spacify', 'thousands_commas', 'sql_quote']
_LIVE = [n for n, f in DT_Var.modifiers]
# stages that can run on the plain, already escaped output of newline_to_br: those listed after it in the LIVE modifiers order
_AFTER = _LIVE[_LIVE.index('newline_to_br') + 1:]
AFTER_BR = [n for n in _AFTER if n not in ('url_unquote', 'url_unquote_plus')]
BR_THEN_UNQUOTE = [n for n in ('url_unquote', 'url_unquote_plus') if n in _AFTER]
CASEY = {'lower', 'upper', 'capitalize'}


# exceptions a value pipeline stage legitimately raises on unsuitable values (then nothing is emitted); anything else - in
# particular artefacts of symbolic execution such as SystemError from copying a TaintedString - must surface and be replayed
BENIGN = (ValueError, TypeError, KeyError, AttributeError, IndexError, OverflowError, UnicodeError, ZeroDivisionError)


def strip_br(out):
    return out.replace('<br />', '')


def lt_count(s):
    n = 0
    for ch in s:
        if ch == '<':
            n += 1
    return n


def make_marked(name):
    f = MODS[name]

    def ob(s: str) -> bool:
        try:
            r = f(TaintedString(s))
        except BENIGN:
            return True      # no value, no output
        return isinstance(r, TaintedString)
    ob.__name__ = 'ob_marked_' + name
    return ob


def ob_br(s: str) -> bool:
    r = DT_Var.newline_to_br(TaintedString(s))
    return '<' not in strip_br(str(r))


def ob_quoted(s: str) -> bool:
    return '<' not in TaintedString(s).quoted()


def make_after_br(name):
    f = MODS[name]

    def ob(s: str) -> bool:
        try:
            r = f(s)
        except BENIGN:
            return True
        return lt_count(str(r)) <= lt_count(s)
    ob.__name__ = 'ob_afterbr_' + name
    return ob


def pick(k):
    # selector -> concrete character (if-chain: CrossHair must not index with a symbolic int)
    if k == 0:
        return '%'
    if k == 1:
        return '3'
    if k == 2:
        return 'C'
    if k == 3:
        return '<'
    return 'a'


def make_br_unquote(name):
    f = MODS[name]

    def ob(k1: int, k2: int, k3: int, k4: int) -> bool:
        w = pick(k1) + pick(k2) + pick(k3) + pick(k4)
        if '<' not in w:
            return True
        v = DT_Var.newline_to_br(TaintedString(w))
        r = f(v)
        if isinstance(r, TaintedString):
            r = r.quoted()
        return '<' not in strip_br(str(r))
    ob.__name__ = 'ob_br_then_' + name
    return ob


def ob_size(s: str, size: int) -> bool:
    """the truncation stage: slicing a marked value and appending etc, then the final quoted()"""
    val = TaintedString(s)
    if len(val) > size:
        val = val[:size]
        l_ = val.rfind(' ')
        if l_ > size / 2:
            val = val[:l_ + 1]
        val = val + '...'
    if isinstance(val, TaintedString):
        val = val.quoted()
    return '<' not in val


def ob_strfunc(s: str) -> bool:
    """_.string helpers re-taint (StringFunctionWrapper): a result containing < is marked again"""
    from DocumentTemplate.DT_Util import StringFunctionWrapper
    w = StringFunctionWrapper(str.strip)
    r = w(TaintedString(s))
    return isinstance(r, TaintedString) or '<' not in r


# ---------------------------------------------------------------- glue: real renders
GLUE = {}


def g(name, src, cls=HTML, br=False, exact=None, alpha=False):
    GLUE[name] = (src, cls, br, exact, alpha)


for _m in ['url_quote', 'url_quote_plus', 'url_unquote', 'url_unquote_plus', 'newline_to_br', 'lower', 'upper', 'capitalize',
           'spacify', 'thousands_commas', 'sql_quote']:
    _br = _m == 'newline_to_br'
    g('mod_' + _m, '<dtml-var x %s>' % _m, br=_br, alpha=_m in CASEY)
    g('modhq_' + _m, '<dtml-var x %s html_quote>' % _m, br=_br, alpha=_m in CASEY)
g('ent_mod_tc', '&dtml.thousands_commas-x;')
g('ent_mod_unq', '&dtml.url_unquote-x;')
g('ent_mod_upper', '&dtml.upper-x;', alpha=True)
g('epfs_tc', '%(x thousands_commas)s', String)
g('epfs_unq', '%(x url_unquote)s', String)
g('expr_tc', '<dtml-var "x" thousands_commas>')
g('expr_unq', '<dtml-var expr="x" url_unquote_plus>')
g('plain', '<dtml-var x>', exact='id')
g('entity', '&dtml-x;', exact='id')
g('hq', '<dtml-var x html_quote>', exact='id')
g('expr_plain', '<dtml-var "x">', exact='id')
g('epfs_plain', '%(x)s', String, exact='id')
g('hq_spacify', '<dtml-var x html_quote spacify>', exact='spacify')
g('hq_size', '<dtml-var x html_quote size=99>', exact='id')
g('fmt_hq', '<dtml-var x fmt=html-quote>', exact='id')
g('hq_lower', '<dtml-var x html_quote lower>', exact='lower', alpha=True)
for _f in ['sql-quote', 'url-quote', 'url-quote-plus', 'url-unquote', 'url-unquote-plus', 'multi-line', 'comma-numeric',
           'collection-length', 'whole-dollars', 'dollars-and-cents', 'dollars-with-commas', 'dollars-and-cents-with-commas']:
    g('fmt_' + _f.replace('-', '_'), '<dtml-var x fmt=%s>' % _f, br=_f == 'multi-line')
for _f in ['upper', 'lower', 'strip', 'title', 'casefold', 'swapcase', 'capitalize', 'format', 'lstrip', 'rstrip',
           'expandtabs', 'isdigit', 'splitlines', 'split', 'encode']:
    g('meth_' + _f, '<dtml-var x fmt=%s>' % _f, alpha=True)
g('cfmt_s', '<dtml-var x fmt="%s">')
g('cfmt_10s', '<dtml-var x fmt="%10s">')
g('cfmt_pre', '<dtml-var x fmt="a%sb">')
g('cfmt_s_unq', '<dtml-var x fmt="%s" url_unquote>')
g('epfs_10s', '%(x)10s', String)
g('epfs_dot1s', '%(x).1s', String)
g('epfs_r', '%(x)r', String)
g('epfs_dot1s_unq', '%(x url_unquote).1s', String)
for _n in range(0, 4):
    g('size_%d' % _n, '<dtml-var x size=%d etc="..">' % _n)
g('size_noetc', '<dtml-var x size=1>')
g('null', '<dtml-var x null="nul">')
g('missing', '<dtml-var x missing="mis">')
g('fmt_null', '<dtml-var x fmt=casefold null="n">', alpha=True)
g('pair_q_unq', '<dtml-var x url_quote url_unquote>')
g('pair_qp_unqp', '<dtml-var x url_quote_plus url_unquote_plus>')
g('tri_q_sql_unq', '<dtml-var x url_quote sql_quote url_unquote>')
g('tri_q_spac_unq', '<dtml-var x url_quote spacify url_unquote>')
g('pair_br_unq', '<dtml-var x newline_to_br url_unquote>', br=True)
g('pair_tc_sql', '<dtml-var x thousands_commas sql_quote>')
g('fmtq_unq', '<dtml-var x fmt=url-quote url_unquote>')
g('fmt_ml_unq', '<dtml-var x fmt=multi-line url_unquote>', br=True)
g('fmt_ml_unqp', '<dtml-var x fmt="multi-line" url_unquote_plus>', br=True)
g('fmt_ml_unq_epfs', '%(x fmt=multi-line url_unquote)s', String, br=True)
g('fmt_sql_unq', '<dtml-var x fmt=sql-quote url_unquote>')
g('fmt_uq_unq', '<dtml-var x fmt=url-quote url_unquote_plus>')
g('all_quoting', '<dtml-var x html_quote url_quote url_unquote sql_quote thousands_commas spacify>')

GT = {k: cooked(v[0], v[1]) for k, v in GLUE.items()}


def make_glue(name):
    src, cls, br, exact, alpha = GLUE[name]
    t = GT[name]

    def ob(s: str) -> bool:
        if '<' not in s:
            return True          # only values containing < are tainted by the publisher
        try:
            out = t(x=TaintedString(s))
        except BENIGN:
            return True
        if not isinstance(out, str):
            out = str(out)
        if br:
            # the <br /> tags the format adds itself: one per line end of the value (a line end may also arrive url-encoded when an
            # unquote stage runs first) - never one that the untrusted text spells out or smuggles in encoded form
            nbr = 0
            for ch in s:
                if ch == '\n':
                    nbr += 1
            if out.count('<br />') > nbr + s.lower().count('%0a'):
                return False
            out = strip_br(out)
        if '<' in out:
            return False
        if exact == 'id':
            return out == ref_escape(s)
        if exact == 'spacify':
            return out == ref_escape(s.replace('_', ' '))
        if exact == 'lower':
            return out == ref_escape(s.lower())
        return True
    ob.__name__ = 'ob_glue_' + name
    return ob


OBLIGATIONS = []
URLY = {'url_quote', 'url_quote_plus', 'url_unquote', 'url_unquote_plus'}
NU = tier(2, 3)
for _m in MARKED:
    _pre = ['len(s) <= %d' % (NU if _m in URLY else N)] + ([ALPHA_PRE] if _m in CASEY or _m in URLY else [])
    OBLIGATIONS.append(Ob('stage_keepmark_' + _m, make_marked(_m), _pre, timeout=tier(150, 600),
                          data='content s of a TaintedString, len <= %d%s' % (N, ', alphabet %r' % ALPHA if _m in CASEY else ', any code points'),
                          selectors='pipeline stage DT_Var.%s' % _m,
                          outside='contents longer than %d; unrestricted Unicode for case-mapping stages' % N))
OBLIGATIONS.append(Ob('stage_newline_to_br', ob_br, ['len(s) <= %d' % N], timeout=tier(450, 900),
                      data='s any code points len <= %d' % N, selectors='newline_to_br (ends the marked phase)'))
OBLIGATIONS.append(Ob('stage_final_quoted', ob_quoted, ['len(s) <= %d' % N], timeout=tier(100, 400), data='s len <= %d' % N,
                      selectors='TaintedString.quoted()'))
OBLIGATIONS.append(Ob('stage_size', ob_size, ['len(s) <= %d' % N, '0 <= size <= %d' % (N + 2)], timeout=tier(150, 600),
                      data='s len <= %d, size 0..%d' % (N, N + 2), selectors='size/etc truncation (statements mirrored from Var.render)',
                      stubs='truncation statements of Var.render re-typed in the harness for the unit lemma; the real ones run in glue size_*'))
OBLIGATIONS.append(Ob('stage_strfunc_wrapper', ob_strfunc, ['len(s) <= %d' % N], timeout=tier(100, 400), data='s len <= %d' % N,
                      selectors='DT_Util.StringFunctionWrapper(str.strip)'))
for _m in AFTER_BR:
    _pre = ['len(s) <= %d' % N] + ([ALPHA_PRE] if _m in CASEY else [])
    OBLIGATIONS.append(Ob('afterbr_nogrow_' + _m, make_after_br(_m), _pre, timeout=tier(450, 900),
                          data='plain s len <= %d' % N, selectors='stage %s applied to the plain output of newline_to_br' % _m))
for _m in BR_THEN_UNQUOTE:
    OBLIGATIONS.append(Ob('br_then_' + _m, make_br_unquote(_m), ['0 <= k%d <= 4' % i for i in (1, 2, 3, 4)], timeout=tier(200, 400),
                          data='-', selectors="marked content w = 4 characters, each selected from {'%%','3','C','<','a'}, containing '<' "
                          '(625 concrete strings enumerated by path forking); newline_to_br followed by the trailing %s entry of '
                          'DT_Var.modifiers' % _m))
# '%'-formatting a TaintedString under CrossHair raises an internal SystemError (the symbolic wrapper is copied through
# __reduce__, which TaintedString forbids): those templates are decided over a stated pool of tainted values, untraced
POOL_GLUE = {'cfmt_pre', 'cfmt_10s', 'cfmt_s_unq', 'epfs_r', 'epfs_10s', 'epfs_dot1s', 'epfs_dot1s_unq', 'cfmt_s'}
TPOOL = ['<', 'a<b', '<%3C', ' <', '=<', '<\n', '%s<', '<<<', '%3C<', '<script>', '\x00<', "'<\"", '<b>%3Cscript%3E', '<%253C', '12<345', '<+%2B', '%3Cbr /%3E<', '<br />', 'a\n%3Cbr%20/%3E<', '<&\n"']


def make_glue_pool(name):
    ob0 = make_glue(name)
    t0 = GT[name]

    def ob(j: int) -> bool:
        idx = 0
        for i in range(len(TPOOL)):
            if j == i:
                idx = i
        from crosshair.tracers import NoTracing
        with NoTracing():
            try:
                t0(x=TPOOL[idx])          # the same text rendered first as a trusted plain string ...
            except BENIGN:
                pass
            return ob0(TPOOL[idx])        # ... must not influence how the tainted value is treated afterwards
    ob.__name__ = 'ob_gluepool_' + name
    return ob


for _n in GLUE:
    _src, _cls, _br, _exact, _alpha = GLUE[_n]
    if _n in POOL_GLUE:
        OBLIGATIONS.append(Ob('glue_' + _n, make_glue_pool(_n), ['0 <= j < %d' % len(TPOOL)], timeout=tier(120, 600),
                              data='-', selectors='template %r (%s), tainted value from the pool %r (untraced per path)' % (_src, _cls.__name__, TPOOL),
                              outside='tainted values outside the pool for %%-format templates',
                              stubs='CrossHair cannot trace %-formatting of a TaintedString (internal SystemError): pool + untraced render'))
        continue
    OBLIGATIONS.append(Ob('gluepool_' + _n, make_glue_pool(_n), ['0 <= j < %d' % len(TPOOL)], timeout=tier(120, 600),
                          data='-', selectors='template %r (%s): each pool value %r rendered plain first, then tainted (untraced per path)' % (_src, _cls.__name__, TPOOL),
                          outside='tainted values outside the pool', stubs='render runs untraced once the value is fixed on the path'))
    _pre = ['len(s) <= %d' % NG] + ([ALPHA_PRE] if _alpha or 'quote' in _src.replace('html_quote', '').replace('sql_quote', '').replace('html-quote', '').replace('sql-quote', '') else [])
    OBLIGATIONS.append(Ob('glue_' + _n, make_glue(_n), _pre, timeout=tier(120, 600),
                          data="tainted value s containing '<', len <= %d%s" % (NG, ' over alphabet' if _alpha else ', any code points'),
                          selectors='template %r (%s)' % (_src, _cls.__name__),
                          outside='values longer than %d in whole renders' % NG,
                          stubs='relib-escape' if _cls is String else ''))

ASSUMES = ["only values containing '<' are wrapped as TaintedString (publisher contract, AccessControl.tainted.should_be_tainted)",
           'documented exception: newline_to_br / fmt=multi-line insert <br /> themselves']


def explain(obname, args):
    if obname == 'combos':
        return LASTC.get('info', '')
    if obname.startswith('glue_'):
        n = obname[5:]
        s = args.get('s')
        return 'template %r with x=TaintedString(%r) renders %r' % (GLUE[n][0], s, GT[n](x=TaintedString(s)))
    if obname.startswith('br_then_'):
        w = ''.join(pick(args[k]) for k in ('k1', 'k2', 'k3', 'k4'))
        src = '<dtml-var x newline_to_br %s>' % obname[8:]
        x = '<' + w.replace('%', '%25')
        return 'marked content %r; whole render: %s with x=TaintedString(%r) -> %r' % (w, src, x, HTML(src)(x=TaintedString(x)))
    return ''


# ---------------------------------------------------------------- wave 3
from crosshair.tracers import NoTracing      # noqa: E402

STR_METHODS = sorted(n for n in dir(str) if not n.startswith('_'))


def leak_free(out, s, br):
    """br = number of stages that add <br /> tags themselves (each adds one per line end it sees)"""
    if not isinstance(out, str):
        out = str(out)
    if br:
        if out.count('<br />') > int(br) * (s.count('\n') + s.lower().count('%0a')):
            return False
        out = strip_br(out)
    return '<' not in out


def ob_method_formats(m: int) -> bool:
    """fmt=<name> for EVERY public attribute name of str (methods that need arguments simply fail): whatever the method returns - str,
    list, tuple, bool, bytes - no raw '<' of the tainted value is emitted"""
    i = 0
    for k in range(len(STR_METHODS)):
        if m == k:
            i = k
    with NoTracing():
        name = STR_METHODS[i]
        for src, cls in (('<dtml-var x fmt=%s>' % name, HTML), ('<dtml-var x fmt="%s" upper size=40>' % name, HTML), ('%%(x fmt=%s)s' % name, String)):
            t = cls(src)
            for v in TPOOL:
                try:
                    out = t(x=TaintedString(v))
                except BENIGN:
                    continue
                if not leak_free(out, v, False):
                    return False
        return True


OBLIGATIONS.append(Ob('method_formats_all', ob_method_formats, ['0 <= m < %d' % len(STR_METHODS)], timeout=tier(200, 600), path_timeout=60, data='-',
                      selectors='fmt=<every public attribute name of str: %d names> in three tag forms, tainted values from the pool' % len(STR_METHODS),
                      outside='tainted values outside the pool', stubs='renders run untraced once the method name is fixed on the path'))

COMBO_FMT = [None, 'multi-line', 'url-quote', 'sql-quote', 'html-quote', 'url-unquote', 'comma-numeric', 'strip']
COMBO_CFMT = ['s', '40s', '.60s', '-5s']
COMBO_MODS = ['html_quote', 'url_quote', 'url_quote_plus', 'url_unquote', 'url_unquote_plus', 'newline_to_br', 'upper', 'spacify', 'thousands_commas', 'sql_quote']
COMBOS = []
for _f in COMBO_FMT:
    for _c in COMBO_CFMT:
        for _i in range(len(COMBO_MODS) + 1):
            for _j in range(_i, len(COMBO_MODS) + 1):
                _ms = ([COMBO_MODS[_i]] if _i < len(COMBO_MODS) else []) + ([COMBO_MODS[_j]] if _j < len(COMBO_MODS) and _j != _i else [])
                if _i == len(COMBO_MODS) and _j != _i:
                    continue
                COMBOS.append((_f, _c, tuple(_ms)))
COMBOS = sorted(set(COMBOS), key=repr)


def ob_combos(k: int) -> bool:
    """every combination of (special / method format) x (C-style conversion) x (up to two modifiers), EPFS and HTML syntax"""
    lo, hi = 0, len(COMBOS)
    while hi - lo > 1:
        mid = (lo + hi) // 2
        if k < mid:
            hi = mid
        else:
            lo = mid
    with NoTracing():
        f, c, ms = COMBOS[lo]
        args = 'x' + (' fmt=%s' % f if f else '') + ''.join(' ' + m for m in ms)
        br = int(f == 'multi-line') + int('newline_to_br' in ms)
        ts = [String('%%(%s)%s' % (args, c))]
        if c == 's':
            ts.append(HTML('<dtml-var %s>' % args))
            ts.append(HTML('<dtml-var %s size=30 etc="">' % args))
        for t in ts:
            for v in TPOOL:
                try:
                    out = t(x=TaintedString(v))
                except BENIGN:
                    continue
                if not leak_free(out, v, br):
                    LASTC['info'] = 'template %r with x=TaintedString(%r) renders %r' % (t.raw, v, out)
                    return False
        return True


LASTC = {}
OBLIGATIONS.append(Ob('combos', ob_combos, ['0 <= k < %d' % len(COMBOS)], timeout=tier(280, 900), path_timeout=60, data='-',
                      selectors='%d combinations: fmt in %r x C-style conversion in %r x up to two modifiers of %r; EPFS form, and for conversion s also <dtml-var> with and without size; '
                      'tainted values from the pool' % (len(COMBOS), COMBO_FMT, COMBO_CFMT, COMBO_MODS),
                      outside='three or more modifiers together with fmt= and a C-style conversion; values outside the pool', stubs='templates compiled and rendered untraced once the combination is fixed on the path'))

ONCE_SRCS = ['<dtml-var x html_quote>', '<dtml-var x fmt=multi-line html_quote>', '<dtml-var x newline_to_br html_quote>', '<dtml-var x html_quote upper>',
             '<dtml-var x html_quote size=50>', '<dtml-var x fmt=html-quote html_quote>', '<dtml-var x fmt=html-quote>', '<dtml-var x fmt=multi-line html_quote spacify>',
             '&dtml.newline_to_br-x;', '&dtml-x;', '<dtml-var "x" html_quote lower>', '<dtml-var x fmt="%s" html_quote>', '<dtml-var x html_quote sql_quote>',
             '<dtml-var x fmt=multi-line newline_to_br html_quote>', '<dtml-var x html_quote null="">', '<dtml-var x html_quote thousands_commas>']
ONCE_T = [cooked(s_) for s_ in ONCE_SRCS]
ONCE_EPFS = [cooked(s_, String) for s_ in ('%(x html_quote)s', '%(x fmt=multi-line html_quote)s', '%(x html_quote)40s', '%(x fmt=multi-line html_quote).70s')]


def ob_once_not_twice(k: int, j: int) -> bool:
    """with html_quote ALSO requested a tainted value is escaped once, not twice: no '&amp;lt;', '&amp;amp;', '&amp;quot;' ... appears"""
    ts = ONCE_T + ONCE_EPFS
    ti, vi = 0, 0
    for i in range(len(ts)):
        if k == i:
            ti = i
    for i in range(len(TPOOL)):
        if j == i:
            vi = i
    with NoTracing():
        v = TPOOL[vi]
        try:
            out = ts[ti](x=TaintedString(v))
        except BENIGN:
            return True
        low = out.lower()
        for twice in ('&amp;lt;', '&amp;amp;', '&amp;quot;', '&amp;gt;', '&amp;#x27;'):
            if twice in low:
                return False
        return leak_free(out, v, 2)


OBLIGATIONS.append(Ob('escaped_once_not_twice', ob_once_not_twice, ['0 <= k < %d' % (len(ONCE_T) + len(ONCE_EPFS)), '0 <= j < %d' % len(TPOOL)], timeout=tier(200, 600), path_timeout=60, data='-',
                      selectors='%d templates that request html_quote together with a format / modifier / size / C-style conversion, tainted values from the pool' % (len(ONCE_T) + len(ONCE_EPFS)),
                      outside='values outside the pool', stubs='render runs untraced once template and value are fixed on the path'))
