"""C20 - tree state survives its cookie encoding and tracks expand/collapse clicks (engine E1; zlib/base64 are C code)."""
import re

from crosshair.tracers import NoTracing

import TreeDisplay  # noqa: F401
from TreeDisplay import TreeTag
from vlib.ob import Ob, tier
from harness.common import HTML

EXPLANATION = (
    'CrossHair explores (a) the base-64 chunk layer of encode_seq/encode_str/decode_seq for EVERY payload length 0..N with '
    'zlib.compress stubbed to return an arbitrary byte string of that length (three byte patterns that produce +, /, = and '
    'line-boundary cases) and zlib.decompress stubbed to record what comes back: the chunking must be lossless; plus real '
    'zlib round trips of states with long and non-ASCII ids; (b) click histories on dtml-tree: a symbolic choice of tree shape '
    'and, at each step, of which generated link to follow (or expand_all / collapse_all), feeding back the real cookie and link '
    'value; oracle: set-of-expanded-paths model (rows = DFS over expanded nodes, one toggling link per node with children, '
    'collapse forgets descendants, cookie decodes to the same set).')


def pick(k, n):
    lo, hi = 0, n
    while hi - lo > 1:
        mid = (lo + hi) // 2
        if k < mid:
            hi = mid
        else:
            lo = mid
    return lo


# ------------------------------------------------------------------ (a) chunk layer
def pattern(kind, n):
    if kind == 0:
        return bytes(n)
    if kind == 1:
        return bytes([0xFB, 0xFF, 0xBF, 0xFE][i % 4] for i in range(n))
    return bytes((i * 37 + 11) % 256 for i in range(n))


NMAX = tier(250, 600)


def ob_chunks(n: int, kind: int) -> bool:
    ln = pick(n, NMAX + 1)
    kd = pick(kind, 3)
    with NoTracing():
        y = pattern(kd, ln)
        seen = []
        real_c, real_d = TreeTag.zlib.compress, TreeTag.zlib.decompress

        class Z:
            """zlib with compress/decompress replaced; every other name comes from the real module"""

            @staticmethod
            def compress(data, *a, **k):
                return y

            @staticmethod
            def decompress(data, *a, **k):
                seen.append(bytes(data))
                return b'[]'

            def __getattr__(self, name):
                return getattr(real_zlib, name)
        real_zlib = TreeTag.zlib
        Z = Z()
        saved = TreeTag.zlib
        TreeTag.zlib = Z
        try:
            enc = TreeTag.encode_seq(['x'])
            if not isinstance(enc, str):
                return False
            for ch in enc:
                if not (ch.isalnum() and ch.isascii() or ch in '-/_.'):
                    if ch not in '-/':
                        return False
            TreeTag.decode_seq(enc)
            enc2 = TreeTag.encode_str(y)
            TreeTag.decode_seq(enc2)
            TreeTag.decode_seq(enc2.decode('ascii'))
        finally:
            TreeTag.zlib = saved
        return seen == [y, y, y]


IDS = ['a', 'node-1', 'é', '日本語', 'x' * 40, 'with space', 'q"uote', 'a/b', 17, 'z' * 200, '+', '=', '\udc80x', '\ud83d', '\U0001f600', '\x00\n\t', '\\', 1.5, -3, '', '<&>', '\u2028', "'"]


def ob_real_roundtrip(a: int, b: int, c: int, depth: int) -> bool:
    i, j = pick(a, len(IDS)), pick(b, len(IDS))
    k = (i + 2 * j + 1) % len(IDS)          # the third id follows from the first two (every PAIR of ids is covered)
    d = pick(depth, 3)
    with NoTracing():
        if d == 0:
            state = [[IDS[i]]]
        elif d == 1:
            state = [[IDS[i], [[IDS[j]], [IDS[k]]]]]
        else:
            state = [[IDS[i], [[IDS[j], [[IDS[k], [[IDS[i]], [IDS[j]]]]]]]]]
        enc = TreeTag.encode_seq(state)
        return TreeTag.decode_seq(enc) == state and TreeTag.decode_seq(enc.encode('ascii')) == state


def ob_big_state(n: int) -> bool:
    """any state size: n sibling ids"""
    k = pick(n, 61) * 20
    with NoTracing():
        state = [['root', [['id%d-%s' % (i, 'é' * (i % 3))] for i in range(k)]]]
        return TreeTag.decode_seq(TreeTag.encode_seq(state)) == state


# ------------------------------------------------------------------ (b) click histories
class Node:
    def __init__(self, id, kids=()):
        self.id, self.kids = id, list(kids)

    def tpId(self):
        return self.id

    def tpURL(self):
        return self.id

    def tpValues(self):
        return self.kids


class Leaf:
    """an object without a tpValues method (a plain document among folders)"""
    kids = ()

    def __init__(self, id):
        self.id = id

    def tpId(self):
        return self.id

    def tpURL(self):
        return self.id


def shape(i):
    N = Node
    if i == 6:
        return N('r', [Leaf('l0'), N('f', [Leaf('l1'), N('g', [Leaf('l2')]), N('h', [N('h1')])]), Leaf('l3'), N('k', [Leaf('l4')])])
    if i == 0:
        return N('r', [N('a', [N('a1'), N('a2')]), N('b'), N('c', [N('c1', [N('c11')])])])
    if i == 1:
        return N('r', [N('a', [N('a1', [N('a11', [N('a111')])])])])
    if i == 2:
        return N('r', [N('a'), N('b'), N('c')])
    if i == 3:
        return N('r', [N('a', [N('x'), N('y')]), N('b', [N('x'), N('y', [N('z')])])])          # equal ids under different parents
    if i == 4:
        return N('r', [N(1, [N(11), N(12, [N(121)])]), N(2, [N(21)])])                            # integer ids
    return N('r', [N('é', [N('日本', [N('ü')])]), N('with space', [N('q')])])


NSHAPES = 7
T_TREE = HTML('<dtml-tree root>[<dtml-var tpId>]</dtml-tree>')
T_TREE.cook()
T_TREE_AC = HTML('<dtml-tree root assume_children>[<dtml-var tpId>]</dtml-tree>')
T_TREE_AC.cook()
LINK = re.compile(r'<a name="([^"]*)" href="([^"?]*)\?tree-([ec])=([^"#]*)#')


class Response:
    def __init__(self):
        self.cookies = {}

    def setCookie(self, name, value, **kw):
        self.cookies[name] = value


def model_rows(root, E):
    rows = []

    def walk(node, path):
        for k in node.kids:
            p = path + (k.id,)
            rows.append(p)
            if p in E and k.kids:
                walk(k, p)
    walk(root, ())
    return rows


def state_paths(state):
    """the cookie's nested [id, [sub...]] lists as a set of paths below the root"""
    out = set()

    def walk(subs, path):
        for s in subs:
            p = path + (s[0],)
            out.add(p)
            if len(s) > 1:
                walk(s[1], p)
    if state and len(state[0]) > 1:
        walk(state[0][1], ())
    return out


def all_expandable(root):
    out = set()

    def walk(node, path):
        for k in node.kids:
            p = path + (k.id,)
            if k.kids:
                out.add(p)
                walk(k, p)
    walk(root, ())
    return out


def closure_ok(E):
    for p in E:
        if len(p) > 1 and p[:-1] not in E:
            return False
    return True


def render(root, cookie, extra, ac=False):
    resp = Response()
    ns = {'root': root, 'URL': 'http://h/doc', 'RESPONSE': resp}
    if cookie is not None:
        ns['tree-s'] = cookie
    ns.update(extra)
    out = (T_TREE_AC if ac else T_TREE)(**ns)
    rows = re.findall(r'\[([^\]]*)\]', out)
    links = LINK.findall(out)
    return out, rows, links, resp.cookies.get('tree-s')


def node_at(root, path):
    n = root
    for pid in path:
        n = [k for k in n.kids if k.id == pid][0]
    return n


def run_clicks(si, clicks, ac=False):
    """ac: the assume_children option - every collapsed node is assumed to have children (it carries an expand link); an
    expanded node without children carries none and stays recorded as expanded"""
    root = shape(si)
    E = set()
    cookie, extra = None, {}
    seen_e = []          # every expand link the tag has generated so far (path, encoded value): clicks 8..10 follow a STALE one
    for step in range(len(clicks) + 1):
        out, rows, links, cookie = render(root, cookie, extra, ac)
        want = model_rows(root, E)
        if rows != [str(p[-1]) for p in want]:
            return False
        if ac:
            linked = [p for p in want if p not in E or node_at(root, p).kids]
        else:
            linked = [p for p in want if node_at(root, p).kids]
        # exactly one link per (assumed) parent node, in display order, expand/collapse matching the model
        if len(links) != len(linked):
            return False
        for (name, href, kind, val), p in zip(links, linked):
            if name != str(p[-1]) or kind != ('c' if p in E else 'e'):
                return False
        # the cookie describes the same set of expanded nodes
        if cookie is None:
            return False
        st = TreeTag.decode_seq(cookie)
        if not st or st[0][0] != 'r':
            return False
        if state_paths(st) != ({p for p in E} if ac else {p for p in E if node_at(root, p).kids}):
            return False
        for (name, href, kind, val), p in zip(links, linked):
            if kind == 'e' and (p, val) not in seen_e:
                seen_e.append((p, val))
        if step == len(clicks):
            break
        c = clicks[step]
        extra = {}
        if c >= 8:
            # a link from an EARLIER page (back button, second tab): expanding a node opens the whole path down to it
            if not seen_e:
                continue
            p, val = seen_e[(c - 8) % len(seen_e)]
            extra = {'tree-e': val}
            E = E | {p[:i] for i in range(1, len(p) + 1)}
        elif c == 0:
            extra = {'expand_all': 1}
            E = all_expandable(root)
        elif c == 1:
            extra = {'collapse_all': 1}
            E = set()
        else:
            if not links:
                continue
            idx = (c - 2) % len(links)
            name, href, kind, val = links[idx]
            p = linked[idx]
            extra = {'tree-' + kind: val}
            if kind == 'e':
                E = E | {p}
            else:
                E = {q for q in E if q[:len(p)] != p}          # collapsing forgets the descendants' expansion
    return True


def make_clicks(L):
    def ob(s: int, c1: int, c2: int, c3: int, c4: int, c5: int) -> bool:
        si = pick(s, NSHAPES)
        clicks = [pick(c, 8) for c in (c1, c2, c3, c4, c5)[:L]]
        with NoTracing():
            return run_clicks(si, clicks)
    ob.__name__ = 'ob_clicks_%d' % L
    return ob


def make_clicks_shape(si, L, ac=False, stale=False):
    def ob(c1: int, c2: int, c3: int, c4: int, c5: int) -> bool:
        if stale:
            clicks = [[0, 1, 2, 3, 4, 8, 9, 10][pick(c, 8)] for c in (c1, c2, c3, c4, c5)[:L]]
        else:
            clicks = [pick(c, 8) for c in (c1, c2, c3, c4, c5)[:L]]
        with NoTracing():
            return run_clicks(si, clicks, ac)
    ob.__name__ = 'ob_clicks_s%d_%d' % (si, L)
    return ob


def explain(obname, args):
    return ''


OBLIGATIONS = []
OBLIGATIONS.append(Ob('chunk_layer', ob_chunks, ['0 <= n <= %d' % NMAX, '0 <= kind < 3'], timeout=tier(280, 1200), path_timeout=60,
                      data='payload length n: every value 0..%d (crosses the 57-byte / 76-char chunk boundaries many times)' % NMAX,
                      selectors='3 byte patterns (zeros; 0xFB/0xFF-rich producing + and /; counter)',
                      outside='payloads longer than %d bytes' % NMAX, stubs='zlib.compress returns the chosen byte string, zlib.decompress records its argument (binascii is C: content concrete per path)'))
OBLIGATIONS.append(Ob('real_roundtrip', ob_real_roundtrip, ['0 <= a < %d' % len(IDS), '0 <= b < %d' % len(IDS), 'c == 0', '0 <= depth < 3'], timeout=tier(280, 900), path_timeout=60,
                      data='-', selectors='states of depth 1..3 over ids %r' % ([str(i)[:12] for i in IDS],), outside='ids JSON cannot carry (bytes)'))
OBLIGATIONS.append(Ob('big_state', ob_big_state, ['0 <= n <= 60'], timeout=tier(250, 900), data='number of sibling ids: 0, 20, 40, ... 1200 (state JSON up to ~17 kB)', selectors='real zlib'))
PRE = ['0 <= c%d < 8' % i for i in range(1, 6)]
LQ = tier(4, 5)
for _s in range(NSHAPES):
    OBLIGATIONS.append(Ob('clicks_shape%d' % _s, make_clicks_shape(_s, LQ), PRE, timeout=tier(280, 1500), path_timeout=60,
                          data='click history of %d steps: each step expand_all, collapse_all or one of the links the previous rendering produced' % LQ,
                          selectors='tree shape %d' % _s, outside='histories longer than %d; assume_children, single, leaves/header/footer documents' % LQ,
                          stubs='renders run untraced once shape and history are fixed on the path'))
for _s in (0, 2, 6):
    OBLIGATIONS.append(Ob('clicks_assume_children_shape%d' % _s, make_clicks_shape(_s, LQ, True), PRE, timeout=tier(280, 1500), path_timeout=60,
                          data='click history of %d steps' % LQ, selectors='tree shape %d with the assume_children option (childless nodes can be "expanded")' % _s,
                          outside='single, leaves/header/footer documents', stubs='renders run untraced once shape and history are fixed on the path'))

PRE_STALE = ['0 <= c%d < 8' % i for i in (1, 2, 3, 4, 5)]
for _s in (1, 0):
    OBLIGATIONS.append(Ob('clicks_stale_links_shape%d' % _s, make_clicks_shape(_s, LQ, False, True), PRE_STALE, timeout=tier(280, 1500), path_timeout=60,
                          data='click history of %d steps: expand_all, collapse_all, one of the first three links of the current page, or one of the first three expand links the tag generated on EARLIER pages' % LQ,
                          selectors='tree shape %d; following a stale expand link opens the whole path down to that node' % _s,
                          outside='stale COLLAPSE links (what they do to collapsed ancestors is not stated)', stubs='renders run untraced once shape and history are fixed on the path'))
