"""C06 - compiling any source terminates and fails only with a located ParseError (engines E1 + E4)."""
import re
import time

from crosshair.tracers import NoTracing

from DocumentTemplate import DT_HTML, DT_Let, DT_String, DT_Util, DT_Var
from DocumentTemplate.DT_Util import ParseError
from vlib import rxamb
from vlib.ob import Ob, tier
from harness.common import HTML, String

EXPLANATION = (
    'E1: CrossHair runs the real cook() (tag scanner, parseTag, parse_block/parse_close, parse_params, tag constructors) on '
    '(a) wholly symbolic short sources of any code points, (b) tags with symbolic code points spliced in as tag name / entity '
    'body, (c) attribute text over a class-representative alphabet derived at run time from the live patterns, (d) token '
    'sequences and attribute lists chosen by symbolic selectors with symbolic numbers of newlines before each token, judged '
    'against an independent recogniser of the tag grammar (accept iff grammatical; on reject the ParseError message must name '
    'a tag that occurs in the source and the 1-based line on which it starts), (e) every truncation of well-formed sources. '
    'E4: z3 searches each live compiled pattern of the compiler for an exponential-ambiguity pump (time clause).')

TRUSTED_EXTRA = ["re._parser's parse of each live pattern (E4 builds the NFA from it)"]
ASSUMES = ['polynomial-time clause is checked only as "no exponential regex backtracking pump of length <= k"; quadratic '
           're-slicing and interpreter recursion limits (RecursionError for ~1000 attributes / ~1600 nested blocks) are outside']


# ------------------------------------------------------------------ outcome oracle
def unquote_html(t):
    return t.replace('&quot;', '"').replace('&gt;', '>').replace('&lt;', '<').replace('&amp;', '&')


def located(src, msg, cls):
    """message must read '<mess>, for tag <T>, on line <N> of <name>' with T occurring in src on 1-based line N"""
    i = msg.rfind(', on line ')
    if i < 0:
        return False
    j = msg.rfind(', for tag ', 0, i)
    if j < 0:
        return False
    tag = msg[j + 10:i]
    rest = msg[i + 10:]
    k = rest.find(' of ')
    if k < 0:
        return False
    num = rest[:k]
    if not num.isdigit():
        return False
    n = int(num)
    if cls is HTML:
        tag = unquote_html(tag)
    if not tag:
        return False
    off = src.find(tag)
    while off >= 0:
        if 1 + src.count('\n', 0, off) == n:
            return True
        off = src.find(tag, off + 1)
    return False


def outcome(cls, src):
    """-> 'ok' | 'reject' (located ParseError) | 'syntax' (SyntaxError, allowed only with an explicit expr=) | 'bad:<why>'"""
    try:
        cls(src).cook()
        return 'ok'
    except ParseError as e:
        msg = e.args[0] if e.args and isinstance(e.args[0], str) else ''
        if len(e.args) == 1 and located(src, msg, cls):
            return 'reject'
        return 'bad:ParseError not located: %r' % (e.args,)
    except SyntaxError:
        if 'expr=' in src.lower():
            return 'syntax'
        return 'bad:SyntaxError without an explicit expr= attribute'
    except Exception as e:
        return 'bad:%s: %s' % (type(e).__name__, e)


LAST = {}


def acceptable(cls, src):
    o = outcome(cls, src)
    if o.startswith('bad'):
        LAST['info'] = 'cook(%r) -> %s' % (src, o)
        return False
    return True


def pick(k, n):
    """realise a symbolic int in 0..n-1 by bisection (comparisons only; never subscript with a symbolic int)"""
    lo, hi = 0, n
    while hi - lo > 1:
        mid = (lo + hi) // 2
        if k < mid:
            hi = mid
        else:
            lo = mid
    return lo


# ------------------------------------------------------------------ (a) raw symbolic sources
def ob_raw_html(s: str) -> bool:
    return acceptable(HTML, s)


def ob_raw_string(s: str) -> bool:
    return acceptable(String, s)


def ob_raw_html_suffix(s: str) -> bool:
    """any source ENDING in a scanner trigger prefix"""
    for tail in ('&dtml', '&dtml-', '&dtml.', '<dtml-', '</dtml-', '<!--#', '<', '&', '&dtml-a', '<!--#a', '<dtml-a "'):
        if not acceptable(HTML, s + tail):
            return False
    return True


# ------------------------------------------------------------------ (b) code points spliced into tags (any code point)
SPLICE = {
    'dtml_name': ('<dtml-', ' x>'),
    'dtml_name_close': ('</dtml-', '>'),
    'ssi_name': ('<!--#', ' x-->'),
    'ssi_end_name': ('<!--#/', '-->'),
    'entity_dash': ('&dtml-', ';'),
    'entity_dot': ('&dtml.', '-x;'),
    'entity_sep': ('&dtml', 'x;'),
    'dtml_after_name': ('<dtml-var', 'x>'),
}


SPLICE_MAX = {'dtml_after_name': 1, 'entity_dot': 1}   # text that reaches parse_params' dict lookups


def make_splice(key):
    pre, post = SPLICE[key]

    def ob(c1: int, c2: int, n: int) -> bool:
        mid = ''
        if n >= 1:
            mid += chr(c1)
        if n >= 2:
            mid += chr(c2)
        return acceptable(HTML, pre + mid + post)
    ob.__name__ = 'ob_splice_' + key
    return ob


# ------------------------------------------------------------------ (c) attribute text over a class-representative alphabet
def live_patterns():
    """every compiled pattern the compiler uses, fetched from the live objects: name -> (pattern object, how it is called)"""
    sd = [d for d in DT_HTML.dtml_re_class.search.__defaults__ if hasattr(d, '__self__')]
    pd = [d for d in DT_Util.parse_params.__defaults__ if hasattr(d, 'pattern')]
    ld = [d for d in DT_Let.parse_let_params.__defaults__ if hasattr(d, 'pattern')]
    out = {
        'String.tagre': (String().tagre(), 'search'),
        'dtml.name_match': (sd[0].__self__, 'match'), 'dtml.end_match': (sd[1].__self__, 'match'),
        'dtml.start_search': (sd[2].__self__, 'search'), 'dtml.ent_name': (sd[3].__self__, 'match'),
        'String.skip_eol': (DT_String.String.skip_eol.__defaults__[0], 'match'),
        'DT_Util.simple_name': (DT_Util.simple_name.__self__, 'match'),
    }
    for nm, d in zip(('unparmre', 'qunparmre', 'parmre', 'qparmre'), pd):
        out['parse_params.' + nm] = (d, 'match')
    for nm, d in zip(('parmre', 'qparmre'), ld):
        out['parse_let_params.' + nm] = (d, 'match')
    thou = [d for d in DT_Var.thousands_commas.__defaults__ if hasattr(d, '__self__') and hasattr(d.__self__, 'pattern')]
    if thou:
        out['DT_Var.thousands_commas.thou'] = (thou[0].__self__, 'search')
    # every OTHER compiled pattern reachable from the package's modules (module globals, class attributes, function defaults,
    # bound pattern methods): a pattern introduced by a later change is analysed without touching this harness
    known = {id(v[0]) for v in out.values()}
    for name, rx in sorted(discover_patterns().items()):
        if id(rx) not in known:
            known.add(id(rx))
            out['found.' + name] = (rx, 'search')
    return out


def _as_pattern(v):
    if isinstance(v, re.Pattern):
        return v
    s_ = getattr(v, '__self__', None)
    if isinstance(s_, re.Pattern):
        return s_
    return None


def discover_patterns():
    import sys
    import types
    found = {}

    def note(name, v):
        rx = _as_pattern(v)
        if rx is not None and isinstance(rx.pattern, str):
            found.setdefault(name, rx)

    def scan_func(prefix, f):
        for i, d in enumerate(getattr(f, '__defaults__', None) or ()):
            note('%s.default%d' % (prefix, i), d)
        for k, d in (getattr(f, '__kwdefaults__', None) or {}).items():
            note('%s.%s' % (prefix, k), d)
    for mname, mod in sorted(sys.modules.items()):
        if mod is None or not (mname.startswith('DocumentTemplate') or mname.startswith('TreeDisplay')) or '.tests' in mname:
            continue
        short = mname.split('.')[-1]
        for k, v in sorted(vars(mod).items()):
            note('%s.%s' % (short, k), v)
            if isinstance(v, types.FunctionType) and v.__module__ == mname:
                scan_func('%s.%s' % (short, k), v)
            elif isinstance(v, type) and v.__module__ == mname:
                for ak, av in sorted(vars(v).items()):
                    note('%s.%s.%s' % (short, k, ak), av)
                    f = getattr(av, '__func__', av)
                    if isinstance(f, types.FunctionType):
                        scan_func('%s.%s.%s' % (short, k, ak), f)
    return found


def class_alphabet():
    """one representative per atom of the partition of code points induced by every literal and class boundary that the
    live scanner/attribute patterns mention (computed from re._parser output), plus the scanner's literal characters"""
    import re._constants as C
    import re._parser as P
    cuts = {0, 0x110000}
    lits = set('<>&!-#/;."%()[]= \t\n')

    def walk(seq):
        for op, arg in seq:
            if op in (C.LITERAL, C.NOT_LITERAL):
                lits.add(chr(arg))
            elif op is C.IN:
                for o, a in arg:
                    if o is C.LITERAL:
                        lits.add(chr(a))
                    elif o is C.RANGE:
                        cuts.add(a[0])
                        cuts.add(a[1] + 1)
            elif op is C.SUBPATTERN:
                walk(arg[3])
            elif op is C.BRANCH:
                for alt in arg[1]:
                    walk(alt)
            elif op in (C.MAX_REPEAT, C.MIN_REPEAT):
                walk(arg[2])
    for name, (rx, how) in live_patterns().items():
        walk(P.parse(rx.pattern, rx.flags))
    for ch in lits:
        cuts.add(ord(ch))
        cuts.add(ord(ch) + 1)
    cs = sorted(cuts)
    reps = []
    for lo, hi in zip(cs, cs[1:]):
        # representative: the lowest member, except prefer a letter/digit inside alnum ranges
        reps.append(chr(lo))
    # merge atoms that every pattern treats alike is not attempted: the partition is only refined, never coarsened
    return reps


ALPHA = class_alphabet()
ATTR_CTX = {
    'var': ('<dtml-var x ', '>', HTML),
    'in': ('<dtml-in x ', '>y</dtml-in>', HTML),
    'let': ('<dtml-let ', '>y</dtml-let>', HTML),
    'ssi_if': ('<!--#if ', '-->y<!--#/if-->', HTML),
    'epfs_var': ('%(x ', ')s', String),
    'with': ('<dtml-with ', '>y</dtml-with>', HTML),
}


def make_attr(ctx, nsym, first=None):
    """first = (lo, hi): the first symbol ranges over ALPHA[lo:hi] only (partition)"""
    pre, post, cls = ATTR_CTX[ctx]
    na = len(ALPHA)
    lo, hi = first if first is not None else (0, na)

    def ob(k1: int, k2: int, k3: int) -> bool:
        mid = ALPHA[lo + pick(k1, hi - lo)]
        if nsym >= 2:
            mid += ALPHA[pick(k2, na)]
        if nsym >= 3:
            mid += ALPHA[pick(k3, na)]
        with NoTracing():
            return acceptable(cls, pre + mid + post)
    ob.__name__ = 'ob_attr_%s_%d_%d' % (ctx, nsym, lo)
    return ob


# ------------------------------------------------------------------ (d) grammar iff: token sequences vs. reference recogniser
# token: (name, role, args builder)   role: open / cont / close / simple / text / bogus
TOK = [
    ('if', 'open', 'c%d'), ('elif', 'cont', 'c%d'), ('else', 'cont', ''), ('if', 'close', ''),
    ('in', 'open', 's%d'), ('in', 'close', ''),
    ('try', 'open', ''), ('except', 'cont', 'E%d'), ('finally', 'cont', ''), ('try', 'close', ''),
    ('var', 'simple', 'v%d'), ('bogus', 'bogus', 'q%d'), ('else', 'cont', 'c1'),
    ('with', 'open', 'w%d'), ('with', 'close', ''),
    ('let', 'open', 'x%d=a'), ('let', 'close', ''),
    ('unless', 'open', 'u%d'), ('unless', 'close', ''),
    ('comment', 'open', ''), ('comment', 'close', ''),
    ('raise', 'open', 'T%d'), ('raise', 'close', ''),
    ('return', 'simple', 'r%d'), ('call', 'simple', 'f%d'), ('except', 'cont', ''), ('', 'text', 'txt%d'),
    ('If', 'bogus', 'c%d'), ('IN', 'bogus', 's%d'), ('else', 'cont', 's1'), ('Var', 'bogus', 'v%d'),
]
NCORE = 13     # the first 13 tokens form the reduced vocabulary used for the longest sequences
# tag lookup is by exact name in a registry that is filled lazily on first use of each block tag: put it into the state a
# long-running process has (every tag used once) before any obligation runs
HTML('<dtml-if a><dtml-in b><dtml-with c><dtml-let d=e><dtml-try><dtml-raise f></dtml-raise><dtml-except></dtml-try>'
     '<dtml-unless g><dtml-comment></dtml-comment></dtml-unless></dtml-let></dtml-with></dtml-in></dtml-if>').cook()
CONT_OF = {'if': ('else', 'elif'), 'in': ('else',), 'try': ('except', 'else', 'finally')}


def print_token(tok, i, syn):
    name, role, ab = tok
    args = (ab % i) if '%d' in ab else ab
    if role == 'text':
        return args
    if syn == 'dtml':
        if role == 'close':
            return '</dtml-%s>' % name
        return '<dtml-%s%s>' % (name, ' ' + args if args else '')
    if syn == 'ssi':
        if role == 'close':
            return '<!--#/%s-->' % name if i % 2 else '<!--#end%s-->' % name
        return '<!--#%s%s-->' % (name, ' ' + args if args else '')
    # EPFS
    if role == 'close':
        return '%%(%s)]' % name
    if role in ('open', 'cont'):
        return '%%(%s%s)[' % (name, ' ' + args if args else '')
    if name == 'var':
        return '%%(%s)s' % args
    if role == 'bogus':
        return '%%(%s %s)[' % (name, args)
    return '%%(%s %s)!' % (name, args)      # call / return


def grammatical(toks):
    """independent recogniser of the tag grammar stated in the property, for the token vocabulary above"""
    stack = []      # entries: [name, args, list of continuation (name, has_args) seen]
    for pos, (name, role, ab) in enumerate(toks, 1):
        args = (ab % pos) if '%d' in ab else ab
        if role in ('text', 'simple'):
            continue
        if role == 'bogus':
            return False                                  # unknown tag (tag names are case-sensitive)
        if role == 'open':
            stack.append([name, args, []])
            continue
        if role == 'close':
            if not stack or stack[-1][0] != name:
                return False                              # end tag without matching start
            bname, bargs, conts = stack.pop()
            if not block_ok(bname, conts):
                return False
            continue
        # continuation
        if not stack or name not in CONT_OF.get(stack[-1][0], ()):
            return False                                  # misplaced continuation tag
        if name == 'else' and args and args != stack[-1][1]:
            return False                                  # an else naming anything but its own if/in variable is not a continuation
        stack[-1][2].append((name, bool(args) and name != 'else'))
    return not stack                                      # missing end tag


def block_ok(bname, conts):
    names = [c[0] for c in conts]
    if bname == 'if':
        if names.count('else') > 1:
            return False                                  # repeated else
        if 'else' in names and names[-1] != 'else':
            return False                                  # elif after else
        return True
    if bname == 'in':
        return len(names) <= 1
    if bname == 'try':
        if 'finally' in names:
            return names == ['finally']
        if names.count('else') > 1:
            return False
        if 'else' in names and names[-1] != 'else':
            return False
        return sum(1 for n, has in conts if n == 'except' and not has) <= 1   # one default handler
    return not names


def make_seq(length, vocab, syn, first=None, nlmax=3):
    """first = (lo, hi): the first token ranges over vocab[lo:hi] only (partition)"""
    cls = String if syn == 'epfs' else HTML
    nv = len(vocab)
    lo, hi = first if first is not None else (0, nv)

    def ob(k1: int, k2: int, k3: int, k4: int, k5: int, nl: int) -> bool:
        idx = [lo + pick(k1, hi - lo)] + [pick(k, nv) for k in (k2, k3, k4, k5)[:length - 1]]
        n = pick(nl, nlmax)
        toks = [vocab[i] for i in idx]
        with NoTracing():
            src = ''
            for j, t in enumerate(toks):
                src += '\n' * n + print_token(t, j + 1, syn)
            got = outcome(cls, src)
            want = 'ok' if grammatical(toks) else 'reject'
            if got != want:
                LAST['info'] = 'cook(%r) -> %s, grammar oracle says %s' % (src, got, want)
            return got == want
    ob.__name__ = 'ob_seq_%s_%d_%d_%d' % (syn, length, lo, hi)
    return ob


# attribute lists: (text, abstract) per tag; oracle mirrors the documented attribute rules, independent of parse_params
ATTRS = {
    'var': (dict(name='', expr='', fmt='s', null='', missing='', size=0, etc='...', upper=1, html_quote=1, url=1),
            ['x', 'name=x', 'expr="1"', 'expr="1 +"', '"1"', '"1 +"', 'null=""', 'null=n', 'bogus=1', 'upper', 'size=3',
             'NAME=y', 'fmt=x', 'etc', 'Upper']),
    'in': (dict(name='', expr='', start='1', end='-1', size='10', orphan='0', overlap='1', mapping=1, prefix='', sort='',
                reverse=1, previous=1, next=1),
           ['x', 'name=x', 'expr="1"', '"1 +"', 'orphan=1', 'size=2', 'overlap=1', 'prefix=ab', 'prefix="a-b"', 'mapping',
            'bogus', 'sort=k', 'sort=j', 'start=s', 'next', 'prefix=9a']),
    'if': (dict(name='', expr=''), ['x', 'name=x', 'expr="1"', 'expr="1 +"', '"1"', '"1 +"', 'y', 'bogus=1', 'name=y']),
    'with': (dict(name='', expr='', mapping=1, only=1), ['x', 'name=x', 'expr="1"', '"1"', 'mapping', 'only', 'bogus', 'only=1', 'Mapping']),
    'raise': (dict(type='', expr=''), ['x', 'type=x', 'expr="1"', '"1"', 'name=x', '"1 +"', 'type=y']),
    'return': (dict(name='', expr=''), ['x', 'name=x', 'expr="1"', '"1"', 'y', 'expr="1 +"']),
    'call': (dict(name='', expr=''), ['x', 'name=x', 'expr="1"', '"1"', 'y', '"1 +"']),
    'unless': (dict(name='', expr=''), ['x', 'name=x', 'expr="1"', '"1"', 'y', 'name=y']),
}
BLOCK = {'in', 'if', 'with', 'raise', 'unless'}
SIMPLE_NAME = re.compile(r'[A-Za-z][A-Za-z0-9_]*\Z')


def attr_oracle(tag, items):
    """-> 'ok' | 'reject' | 'syntax-or-reject' per the documented attribute rules"""
    allowed = ATTRS[tag][0]
    params = {}
    unnamed = None
    bad_expr_attr = False
    for pos, it in enumerate(items):
        if '=' in it and not it.startswith('"'):
            k, v = it.split('=', 1)
            k = k.lower()
            v = v[1:-1] if v.startswith('"') else v
            if k not in allowed or k in params:
                return 'reject'                           # unknown or duplicate attribute
            params[k] = v
        elif it.startswith('"'):
            if pos != 0:
                return 'reject'
            unnamed = it
        else:
            if pos == 0:
                unnamed = it
            else:
                if it not in allowed or allowed[it] is None:
                    return 'reject'                       # valueless use of an unknown attribute (names are case-sensitive here)
                if it in params:
                    return 'reject'                       # duplicate attribute (valueless repeat, or valueless after name=value)
                params[it] = allowed[it]
    attr = 'type' if tag == 'raise' else 'name'
    if unnamed is not None:
        if unnamed.startswith('"'):
            if attr in params or 'expr' in params:
                return 'reject'
            if unnamed == '"1 +"':
                return 'reject'                           # shorthand syntax errors are ParseErrors
        else:
            if attr in params or 'expr' in params:
                return 'reject'
    else:
        if attr in params and 'expr' in params:
            return 'reject'
        if attr not in params and 'expr' not in params:
            return 'reject'
        if attr not in params and params.get('expr') == '1 +':
            bad_expr_attr = True
    if tag == 'in':
        p = params.get('prefix')
        if p and not SIMPLE_NAME.match(p):
            return 'reject'
        batch = any(k in params for k in ('start', 'size', 'end'))
        if not batch and any(k in params for k in ('orphan', 'overlap', 'previous', 'next')):
            return 'reject'
    if bad_expr_attr:
        return 'syntax'
    return 'ok'


def make_attrlist(tag, nitems, syn, first=None):
    allowed, items = ATTRS[tag]
    ni = len(items)
    cls = String if syn == 'epfs' else HTML
    flo, fhi = first if first is not None else (0, ni)

    def ob(k1: int, k2: int, k3: int, nl: int) -> bool:
        idx = [flo + pick(k1, fhi - flo)] + [pick(k, ni) for k in (k2, k3)[:nitems - 1]]
        its = [items[i] for i in idx]
        n = pick(nl, 3)
        with NoTracing():
            a = ' '.join(its)
            if syn == 'dtml':
                src = 'a' + '\n' * n + '<dtml-%s %s>' % (tag, a) + ('b</dtml-%s>' % tag if tag in BLOCK else '')
            elif syn == 'ssi':
                src = 'a' + '\n' * n + '<!--#%s %s-->' % (tag, a) + ('b<!--#/%s-->' % tag if tag in BLOCK else '')
            else:
                if tag == 'var':
                    if '=' in its[0] or its[0].startswith('"') or (len(its) > 1 and its[1].startswith('"')):
                        return True      # an EPFS var tag must start with the variable name; args starting with a quote: see C07
                    src = 'a' + '\n' * n + '%%(%s)s' % a
                else:
                    src = 'a' + '\n' * n + '%%(%s %s)%s' % (tag, a, '[' if tag in BLOCK else '!') + ('b%%(%s)]' % tag if tag in BLOCK else '')
                if a.startswith('"') or ')' in a:
                    return True          # EPFS cannot carry an argument string that starts with a quote (see C07) or contains ')'
            got = outcome(cls, src)
            want = attr_oracle(tag, its)
            if got != want and not (want == 'syntax' and got == 'reject'):
                LAST['info'] = 'cook(%r) -> %s, attribute oracle says %s' % (src, got, want)
                return False
            return True
    ob.__name__ = 'ob_attrs_%s_%d_%s' % (tag, nitems, syn)
    return ob


# ------------------------------------------------------------------ (e) truncation at every offset
WELL = [
    '<dtml-if a>x<dtml-elif "b == 1">y<dtml-else>z</dtml-if>\n<dtml-in s sort=k size=3 orphan=1>&dtml-x;</dtml-in>',
    '<!--#try-->\n<!--#var x fmt="%d" null=""-->\n<!--#except KeyError-->k<!--#else-->e<!--#/try-->&dtml.url_quote-y;',
    '%(in s)[%(x)s %(y upper null="n")08.2f\n%(else)[none%(in s)]%(if expr="a + 1")[y%(if)]',
    '<dtml-let a=b c="1 + 2">\n<dtml-with a mapping>&dtml-c;</dtml-with></dtml-let><dtml-raise KeyError>m</dtml-raise>',
    '<dtml-comment>\n<dtml-var x>\n</dtml-comment>\n<dtml-unless expr="x">u</dtml-unless><dtml-return expr="1"><dtml-call "f(1)">',
]


def make_trunc(i):
    src = WELL[i]
    cls = String if src.startswith('%(') else HTML
    n = len(src)

    def ob(cut: int) -> bool:
        c = pick(cut, n + 1)
        with NoTracing():
            return acceptable(cls, src[:c]) and acceptable(cls, src[c:])
    ob.__name__ = 'ob_trunc_%d' % i
    return ob


# ------------------------------------------------------------------ E4: exponential regex ambiguity
KMAX = tier(4, 6)


def rx_probe_inputs(name):
    """(prefix, failing suffix) used to replay a pump on the real compiled pattern"""
    if name == 'String.tagre':
        return '%(a ', ''
    return '', '\x00"=\x01'


def make_rx(name):
    def run(extra=()):
        t0 = time.time()
        if not rxamb.selftest():
            return {'status': 'error', 'message': 'rxamb self-test failed ((a+)+ must be ambiguous, a*a* must not)'}
        rx, how = live_patterns()[name]
        try:
            r = rxamb.eda(rx.pattern, rx.flags, KMAX)
        except rxamb.Unsupported as u:
            return {'status': 'inconclusive', 'message': 'rxamb: unsupported regex construct: %s' % u}
        res = {'paths': r['edges'], 'queries': r['queries'], 'solver_s': round(r['solver_s'], 3), 'wall_s': round(time.time() - t0, 2),
               'functions': ['pattern %s = %r' % (name, rx.pattern)],
               'samples': [{'pattern': name, 'nfa_states': r['states'], 'macro_edges': r['edges'], 'kmax': KMAX}]}
        if r['eda'] is True:
            res.update(status='refuted', cex={'pattern': name, 'pump': r['pump']},
                       message='exponential-ambiguity pump %r for %s' % (r['pump'], name))
        elif r['eda'] is False:
            res.update(status='confirmed', message='no exponential pump of length <= %d in %s (%d NFA states, %d macro edges)' % (
                KMAX, name, r['states'], r['edges']))
        else:
            res.update(status='inconclusive', message=r.get('reason', 'unknown'))
        return res
    return run


def replay_rx(cex):
    """True = holds (the pump does NOT blow up on the real pattern)"""
    name, pump = cex['pattern'], cex['pump']
    rx, how = live_patterns()[name]
    call = getattr(rx, how)
    pre, suf = rx_probe_inputs(name)
    for suffix in (suf, '\x00', '"', ')', '\n', ''):
        ts = rxamb.time_pump(call, pre, pump, suffix)
        if rxamb.blows_up(ts):
            return False, 'pattern %s: matching %r + %r*n + %r takes %s (time multiplies per step: exponential backtracking)' % (
                name, pre, pump, suffix, ['n=%d: %.3fs' % (n, t) for n, t in ts[-4:]])
    return True, 'pump %r does not blow up on the real pattern (ambiguity not reachable from a failing match)' % pump


def explain(obname, args):
    return LAST.get('info', '')


# ------------------------------------------------------------------ obligations
OBLIGATIONS = []
NR = tier(6, 7)
OBLIGATIONS.append(Ob('raw_html', ob_raw_html, ['len(s) <= %d' % NR], timeout=tier(240, 1200),
                      data='s: whole HTML-syntax source, any code points, len <= %d' % NR, outside='raw sources longer than %d' % NR))
OBLIGATIONS.append(Ob('raw_html_suffix', ob_raw_html_suffix, ['len(s) <= 2'], timeout=tier(240, 900),
                      data='s: any code points, len <= 2, followed by each scanner trigger prefix', selectors='11 trigger tails'))
NS = tier(4, 5)
OBLIGATIONS.append(Ob('raw_string', ob_raw_string, ['len(s) <= %d' % NS], timeout=tier(240, 1200), stubs='relib-escape',
                      data='s: whole %%(..)-syntax source, any code points, len <= %d' % NS, outside='raw EPFS sources longer than %d' % NS))
for _k in SPLICE:
    _m = SPLICE_MAX.get(_k, 2)
    OBLIGATIONS.append(Ob('splice_' + _k, make_splice(_k), ['0 <= c1 <= 0x10FFFF', '0 <= c2 <= 0x10FFFF', '0 <= n <= %d' % _m],
                          timeout=tier(200, 600), data='%d code point(s) (any value) spliced at %r ... %r' % ((_m,) + SPLICE[_k]),
                          selectors='splice length 0..%d' % _m, outside='more than %d symbolic code points per splice' % _m))
NSYM = tier(2, 3)
for _c in ATTR_CTX:
    _parts = [(0, len(ALPHA))] if NSYM == 2 else [(i, min(len(ALPHA), i + 5)) for i in range(0, len(ALPHA), 5)]
    for _lo, _hi in _parts:
        OBLIGATIONS.append(Ob('attr_%s%s' % (_c, '' if len(_parts) == 1 else '_p%d' % _lo), make_attr(_c, NSYM, (_lo, _hi)),
                              ['0 <= k1 < %d' % (_hi - _lo), '0 <= k2 < %d' % len(ALPHA), '0 <= k3 < %d' % len(ALPHA)],
                              timeout=tier(240, 1500), path_timeout=30,
                              data='%d attribute characters over the class-representative alphabet (%d atoms computed from the live patterns)' % (NSYM, len(ALPHA)),
                              selectors='context %r ... %r; first symbol in atoms [%d,%d)' % (ATTR_CTX[_c][0], ATTR_CTX[_c][1], _lo, _hi),
                              outside='attribute text longer than %d symbols; characters are representatives of the atoms of the partition induced by the scanner and parse_params patterns (later stages - Eval, int(), dict lookups - may distinguish more)' % NSYM,
                              stubs='cook() runs untraced on the per-path concrete source'))
def seq_obs(syn, length, vocab, nparts, nlmax, label):
    nv = len(vocab)
    step = (nv + nparts - 1) // nparts
    for lo in range(0, nv, step):
        hi = min(nv, lo + step)
        pre = ['0 <= k1 < %d' % (hi - lo)] + ['0 <= k%d < %d' % (i, nv) for i in range(2, 6)] + ['0 <= nl < %d' % nlmax]
        OBLIGATIONS.append(Ob('seq_%s_%d_%s_%d' % (syn, length, label, lo), make_seq(length, vocab, syn, (lo, hi), nlmax), pre,
                              timeout=tier(280, 1500), path_timeout=30,
                              data='number of newlines before every token (symbolic, 0..%d): exercises the line arithmetic of every reported error' % (nlmax - 1),
                              selectors='every token sequence of length %d over the %s vocabulary (%d tokens), first token in [%d,%d), %s syntax' % (length, label, nv, lo, hi, syn),
                              outside='token sequences longer than %d; tokens outside the vocabulary' % length,
                              stubs='cook() runs untraced on the per-path concrete source'))


for _syn in ('dtml', 'ssi', 'epfs'):
    seq_obs(_syn, 2, TOK, 1, 3, 'full')
    if tier(True, False):
        seq_obs(_syn, 3, TOK[:NCORE], 4, 3, 'core')
    else:
        seq_obs(_syn, 3, TOK, len(TOK), 3, 'full')
for _syn in tier(('dtml',), ('dtml', 'ssi', 'epfs')):
    seq_obs(_syn, 4, TOK[:NCORE], NCORE, 2, 'core')
if not tier(True, False):
    seq_obs('dtml', 5, TOK[:NCORE - 2], 10, 1, 'core10')
for _tag in ATTRS:
    for _syn in ('dtml', 'ssi', 'epfs'):
        nit = 3 if _syn == 'dtml' else tier(2, 3)
        _ni = len(ATTRS[_tag][1])
        # three-item lists over the big vocabularies are partitioned by the first item (one worker each)
        _parts = [(lo, min(_ni, lo + 4)) for lo in range(0, _ni, 4)] if nit == 3 and _ni > 10 else [(0, _ni)]
        for _lo, _hi in _parts:
            OBLIGATIONS.append(Ob('attrs_%s_%s%s' % (_tag, _syn, '' if len(_parts) == 1 else '_p%d' % _lo), make_attrlist(_tag, nit, _syn, (_lo, _hi)),
                                  ['0 <= k1 < %d' % (_hi - _lo)] + ['0 <= k%d < %d' % (i, _ni) for i in (2, 3)] + ['0 <= nl < 3'],
                                  timeout=tier(200, 1200), path_timeout=30,
                                  data='newlines before the tag (symbolic 0..2)', selectors='every ordered list of %d attribute items out of %d for tag %s, %s syntax%s' % (
                                      nit, _ni, _tag, _syn, '' if len(_parts) == 1 else '; first item in [%d,%d)' % (_lo, _hi)),
                                  outside='attribute lists longer than %d items' % nit, stubs='cook() runs untraced on the per-path concrete source'))
for _i in range(len(WELL)):
    OBLIGATIONS.append(Ob('trunc_%d' % _i, make_trunc(_i), ['0 <= cut <= %d' % len(WELL[_i])], timeout=tier(120, 300),
                          data='cut position (symbolic, every offset)', selectors='well-formed source #%d, both the head and the tail of the cut' % _i,
                          stubs='cook() runs untraced on the per-path concrete source'))
for _name in live_patterns():
    OBLIGATIONS.append(Ob('rx_' + _name.replace('.', '_'), make_rx(_name), kind='custom', timeout=tier(120, 600), replay=replay_rx, twin=False,
                          engine='E4 rxamb (z3)', data='pump word w over ALL code points, 1 <= |w| <= %d; NFA state q' % KMAX,
                          selectors='live pattern %s' % _name, bounds='pump length <= %d' % KMAX,
                          outside='pumps longer than %d; polynomial (non-exponential) ambiguity; time spent outside re' % KMAX))


# ---------------------------------------------------------------- wave 3: quoted VALUE slots of every free-text attribute
VALUE_CTX = {
    'in_start': ('<dtml-in x start="', '" size=2>y</dtml-in>', HTML),
    'in_size': ('<dtml-in x size="', '">y</dtml-in>', HTML),
    'in_end_orphan': ('<dtml-in x end="', '" orphan="1">y</dtml-in>', HTML),
    'in_overlap': ('<dtml-in x size=3 overlap="', '">y</dtml-in>', HTML),
    'in_prefix': ('<dtml-in x prefix="', '">y</dtml-in>', HTML),
    'in_sort': ('<dtml-in x sort="', '">y</dtml-in>', HTML),
    'in_sort_expr': ('<dtml-in x sort_expr="', '">y</dtml-in>', HTML),
    'in_reverse_expr': ('<dtml-in x reverse_expr="', '">y</dtml-in>', HTML),
    'in_start_epfs': ('%(in x start="', '" size=2)[y%(in)]', String),
    'in_start_ssi': ('<!--#in x start="', '" size=2-->y<!--#/in-->', HTML),
    'var_fmt': ('<dtml-var x fmt="', '">', HTML),
    'var_size_etc': ('<dtml-var x size=3 etc="', '">', HTML),
    'var_null': ('<dtml-var x null="', '" missing="m">', HTML),
    'let_value': ('<dtml-let a="', '">y</dtml-let>', HTML),
    'raise_type': ('<dtml-raise type="', '">y</dtml-raise>', HTML),
    'except_names': ('<dtml-try>y<dtml-except ', '>z</dtml-try>', HTML),
    'tree_branches': ('<dtml-tree x branches="', '">y</dtml-tree>', HTML),
    'tree_sort': ('<dtml-tree x sort="', '" reverse=1>y</dtml-tree>', HTML),
    'with_name': ('<dtml-with "', '" mapping>y</dtml-with>', HTML),
    'if_expr': ('<dtml-if expr="', '">y</dtml-if>', HTML),
}
import TreeDisplay      # noqa: E402,F401  (registers the tree tag)
VALPHA = [c for c in ALPHA if c != '"']


def outcome_value(cls, src, expr_slot):
    o = outcome(cls, src)
    if o.startswith('bad:SyntaxError') and expr_slot:
        return 'syntax'
    return o


def make_value(ctx, nsym, first=None):
    pre, post, cls = VALUE_CTX[ctx]
    na = len(VALPHA)
    lo, hi = first if first is not None else (0, na)
    # slots that hold a Python expression (a quoted value IS the explicit expression form)
    expr_slot = ctx in ('in_sort_expr', 'in_reverse_expr', 'let_value', 'with_name', 'if_expr')

    def ob(k1: int, k2: int, k3: int) -> bool:
        mid = VALPHA[lo + pick(k1, hi - lo)]
        if nsym >= 2:
            mid += VALPHA[pick(k2, na)]
        if nsym >= 3:
            mid += VALPHA[pick(k3, na)]
        with NoTracing():
            o = outcome_value(cls, pre + mid + post, expr_slot)
            if o.startswith('bad'):
                LAST['info'] = 'cook(%r) -> %s' % (pre + mid + post, o)
                return False
            if ctx == 'in_prefix':
                # grammar iff for the one slot with a documented lexical rule: "non-simple prefix" is rejected
                simple = mid[0] in 'aAdefno' and all(ch in 'aAdefno_0' for ch in mid[1:])
                if (o == 'ok') != simple:
                    LAST['info'] = 'cook(%r) -> %s, but the prefix %r is %ssimple' % (pre + mid + post, o, mid, '' if simple else 'not ')
                    return False
            return True
    ob.__name__ = 'ob_value_%s_%d_%d' % (ctx, nsym, lo)
    return ob


for _c in VALUE_CTX:
    OBLIGATIONS.append(Ob('value_' + _c, make_value(_c, 2), ['0 <= k1 < %d' % len(VALPHA), '0 <= k2 < %d' % len(VALPHA), 'k3 == 0'],
                          timeout=tier(240, 900), path_timeout=30,
                          data='2 characters of a quoted attribute VALUE over the class-representative alphabet (%d atoms, without the double quote)' % len(VALPHA),
                          selectors='context %r ... %r' % (VALUE_CTX[_c][0], VALUE_CTX[_c][1]),
                          outside='values longer than 2 symbols', stubs='cook() runs untraced on the per-path concrete source'))
if tier(False, True):
    for _c in ('in_start', 'in_prefix', 'in_sort', 'var_fmt', 'in_start_epfs'):
        for _lo in range(0, len(VALPHA), 5):
            _hi = min(len(VALPHA), _lo + 5)
            OBLIGATIONS.append(Ob('value3_%s_p%d' % (_c, _lo), make_value(_c, 3, (_lo, _hi)),
                                  ['0 <= k1 < %d' % (_hi - _lo), '0 <= k2 < %d' % len(VALPHA), '0 <= k3 < %d' % len(VALPHA)], timeout=1500, path_timeout=30,
                                  data='3 characters of a quoted attribute value', selectors='context %r ... %r; first symbol in atoms [%d,%d)' % (VALUE_CTX[_c][0], VALUE_CTX[_c][1], _lo, _hi),
                                  outside='values longer than 3 symbols', stubs='cook() runs untraced on the per-path concrete source'))


# ---------------------------------------------------------------- wave 4: work done by cook() as a function of nesting depth / repetition
import sys as _sys      # noqa: E402

NEST_OPEN = {
    'dtml': ['<dtml-if a>', '<dtml-in s>', '<dtml-with w>', '<dtml-let x=y>', '<dtml-try>', '<dtml-unless u>'],
    'ssi': ['<!--#if a-->', '<!--#in s-->', '<!--#with w-->', '<!--#let x=y-->', '<!--#try-->', '<!--#unless u-->'],
    'epfs': ['%(if a)[', '%(in s)[', '%(with w)[', '%(let x=y)[', '%(try)[', '%(unless u)['],
}
NEST_CLOSE = {
    'dtml': ['</dtml-if>', '</dtml-in>', '</dtml-with>', '</dtml-let>', '<dtml-except>e</dtml-try>', '</dtml-unless>'],
    'ssi': ['<!--#/if-->', '<!--#/in-->', '<!--#/with-->', '<!--#/let-->', '<!--#except-->e<!--#/try-->', '<!--#/unless-->'],
    'epfs': ['%(if)]', '%(in)]', '%(with)]', '%(let)]', '%(except)[e%(try)]', '%(unless)]'],
}


def cook_calls(cls, src):
    """number of Python function calls made inside the package while compiling src (a deterministic measure of work)"""
    n = [0]

    def prof(frame, event, arg):
        if event == 'call' and '/DocumentTemplate/' in frame.f_code.co_filename:
            n[0] += 1
    t = cls(src)
    _sys.setprofile(prof)
    try:
        t.cook()
    finally:
        _sys.setprofile(None)
    return n[0]


DMAX = tier(18, 26)


def make_nest_work(syn):
    cls = String if syn == 'epfs' else HTML

    def ob(d: int, rot: int, wide: bool) -> bool:
        """compile work grows polynomially: for nesting depth d (block kinds rotating from a selected start) the number of calls made
        while cooking stays below a quadratic bound; doubling work per level (re-parsing nested sections) exceeds it long before d = 18.
        wide: the same number of blocks side by side instead of nested (work linear in the count)"""
        dd, r, w = pick(d, DMAX) + 1, pick(rot, 6), bool(wide)
        with NoTracing():
            ops = [NEST_OPEN[syn][(r + i) % 6] for i in range(dd)]
            cls_ = [NEST_CLOSE[syn][(r + i) % 6] for i in range(dd)]
            if w:
                src = ''.join(o + 'x' + c for o, c in zip(ops, cls_))
            else:
                src = ''.join(o + 't' for o in ops) + 'core' + ''.join(reversed(cls_))
            calls = cook_calls(cls, src)
            bound = 40 * (dd + 1) * (dd + 1) + 500
            if calls > bound:
                LAST['info'] = 'cook() of %d %s blocks (%s syntax) made %d calls inside the package, bound %d' % (dd, 'adjacent' if w else 'nested', syn, calls, bound)
                return False
            return True
    ob.__name__ = 'ob_nest_work_' + syn
    return ob


for _syn in ('dtml', 'ssi', 'epfs'):
    OBLIGATIONS.append(Ob('work_nesting_' + _syn, make_nest_work(_syn), ['0 <= d < %d' % DMAX, '0 <= rot < 6'], timeout=tier(250, 900), path_timeout=120,
                          data='-', selectors='nesting depth / block count 1..%d, rotation of six block kinds, nested or adjacent; %s syntax; deterministic work counter (calls inside the package during cook) against 40(d+1)^2+500' % (DMAX, _syn),
                          outside='depths beyond %d (RecursionError near 300-500 levels is outside every bound)' % DMAX,
                          stubs='cook() runs untraced once the shape is fixed on the path; sys.setprofile counts calls'))
