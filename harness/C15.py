"""C15 - dtml-var options apply a fixed, documented value pipeline (engine E1)."""
import urllib.parse

from crosshair.tracers import NoTracing

from DocumentTemplate import DT_Var
from vlib.ob import Ob, tier
from harness.common import HTML, String, cooked, ref_escape

EXPLANATION = (
    'CrossHair runs the real Var.render on symbolic values: (a) every pair of value modifiers written in both orders must give '
    'the same text, equal to an independent pipeline oracle in the documented fixed order; (b) size/etc truncation against the '
    'statement for every string, size and etc; (c) null=/missing= for every value kind; (d) modifier laws (str methods, digit '
    'grouping on digit strings built from symbolic digits, url quote/unquote round trips, sql_quote safety); (e) fmt before '
    'modifiers before truncation.')

# ------------------------------------------------------------------ independent oracles of the modifiers (documented meaning)


def o_spacify(s):
    return s.replace('_', ' ')


def o_newline_to_br(s):
    return s.replace('\r', '').replace('\n', '<br />\n')


def o_sql_quote(s):
    out = []
    for ch in s:
        if ch == '\x00' or ch == '\x1a' or ch == '\r':
            continue
        out.append("''" if ch == "'" else ch)
    return ''.join(out)


def o_thousands(s):
    """group the digits of the integer part of a numeric literal: [sign/$]digits[.tail]"""
    head, dot, tail = s.partition('.')
    i = len(head)
    while i > 0 and head[i - 1].isdigit() and head[i - 1].isascii():
        i -= 1
    pre, digits = head[:i], head[i:]
    groups = []
    while len(digits) > 3:
        groups.insert(0, digits[-3:])
        digits = digits[:-3]
    groups.insert(0, digits)
    return pre + ','.join(groups) + dot + tail


ORACLE = {
    'html_quote': ref_escape, 'url_quote': lambda s: urllib.parse.quote(s), 'url_quote_plus': lambda s: urllib.parse.quote_plus(s),
    'url_unquote': lambda s: urllib.parse.unquote(s), 'url_unquote_plus': lambda s: urllib.parse.unquote_plus(s),
    'newline_to_br': o_newline_to_br, 'lower': lambda s: s.lower(), 'upper': lambda s: s.upper(), 'capitalize': lambda s: s.capitalize(),
    'spacify': o_spacify, 'thousands_commas': o_thousands, 'sql_quote': o_sql_quote,
}
# the one fixed order: each modifier is applied at most once
ORDER = ['html_quote', 'url_quote', 'url_quote_plus', 'url_unquote', 'url_unquote_plus', 'newline_to_br', 'lower', 'upper', 'capitalize',
         'spacify', 'thousands_commas', 'sql_quote']
MODS = ['html_quote', 'url_quote', 'url_quote_plus', 'url_unquote', 'url_unquote_plus', 'newline_to_br', 'lower', 'upper', 'capitalize',
        'spacify', 'thousands_commas', 'sql_quote']


def pipeline(s, mods):
    for m in ORDER:
        if m in mods:
            s = ORACLE[m](s)
    return s


def pick(k, n):
    lo, hi = 0, n
    while hi - lo > 1:
        mid = (lo + hi) // 2
        if k < mid:
            hi = mid
        else:
            lo = mid
    return lo


# ------------------------------------------------------------------ (a) order independence
SYM_MODS = ['html_quote', 'newline_to_br', 'spacify', 'sql_quote']       # cheap on fully symbolic strings
PAIR_T = {}
for _i, _a in enumerate(MODS):
    for _b in MODS[_i + 1:]:
        PAIR_T[(_a, _b)] = (cooked('<dtml-var x %s %s>' % (_a, _b)), cooked('<dtml-var x %s %s>' % (_b, _a)),
                            cooked('%%(x %s %s)s' % (_b, _a), String), cooked('&dtml.%s.%s-x;' % (_a, _b)))
PAIRS = sorted(PAIR_T)
POOL = ['a_b', "it's", '<b>\n', '1234567.891', 'A b_c', '%3C+x', 'ß', ' x ', '', '12000', 'a&b\r\n', 'é_É', "a'\x00b", 'q%20r', '$1234.5', 'mIxEd']


def make_pair_sym(a, b):
    t1, t2, t3, t4 = PAIR_T[(a, b)] if (a, b) in PAIR_T else PAIR_T[(b, a)]

    def ob(s: str) -> bool:
        want = pipeline(s, (a, b))
        return t1(x=s) == want and t2(x=s) == want
    ob.__name__ = 'ob_pair_%s_%s' % (a, b)
    return ob


def ob_pairs_pool(k: int, j: int) -> bool:
    a, b = PAIRS[pick(k, len(PAIRS))]
    s = POOL[pick(j, len(POOL))]
    with NoTracing():
        t1, t2, t3, t4 = PAIR_T[(a, b)]
        want = pipeline(s, (a, b))
        return t1(x=s) == want and t2(x=s) == want and t3(x=s) == want and t4(x=s) == want


TRIPLES = [('upper', 'spacify', 'html_quote'), ('capitalize', 'newline_to_br', 'sql_quote'), ('lower', 'url_quote', 'thousands_commas'),
           ('html_quote', 'url_unquote', 'upper'), ('spacify', 'sql_quote', 'url_quote_plus')]
TRIPLE_T = {}
for _t in TRIPLES:
    import itertools
    TRIPLE_T[_t] = [cooked('<dtml-var x %s>' % ' '.join(p)) for p in itertools.permutations(_t)]


def ob_triples_pool(k: int, j: int) -> bool:
    t = TRIPLES[pick(k, len(TRIPLES))]
    s = POOL[pick(j, len(POOL))]
    with NoTracing():
        want = pipeline(s, t)
        for tpl in TRIPLE_T[t]:
            if tpl(x=s) != want:
                return False
        return True


# ------------------------------------------------------------------ (b) truncation
ETCS = {'default': None, 'empty': '', 'gt': '>>'}
SIZE_T = {(z, e): cooked('<dtml-var x size=%d%s>' % (z, '' if v is None else ' etc="%s"' % v)) for z in range(0, 9) for e, v in ETCS.items()}


def o_truncate(s, size, etc):
    if len(s) <= size:
        return s
    p = s[:size]
    cut = -1
    for i in range(len(p)):
        if p[i] == ' ':
            cut = i
    if cut * 2 > size:                     # the last blank lies in the second half
        p = p[:cut + 1]
    return p + etc


def make_trunc(size, ekey):
    t = SIZE_T[(size, ekey)]
    etc = '...' if ETCS[ekey] is None else ETCS[ekey]

    def ob(s: str) -> bool:
        out = t(x=s)
        if out != o_truncate(s, size, etc):
            return False
        if len(s) <= size:
            return out == s
        return len(out) <= size + len(etc) and out.endswith(etc)
    ob.__name__ = 'ob_trunc_%d_%s' % (size, ekey)
    return ob


# ------------------------------------------------------------------ (c) null / missing
T_NULL = cooked('<dtml-var x null="NIL">')
T_MISSING = cooked('<dtml-var x missing="MISS">')
T_BOTH = cooked('<dtml-var x null="NIL" missing="MISS" upper>')
T_NULL_FMT = cooked('<dtml-var x null="NIL" fmt="%03d">')


def ob_null(kind: int, defined: bool, n: int, s: str) -> bool:
    """null= replaces None and values that are false but not 0; missing= replaces an undefined name; everything else passes"""
    if kind == 0:
        v, isnull, text = None, True, 'None'
    elif kind == 1:
        v, isnull, text = '', True, ''
    elif kind == 2:
        v, isnull, text = 0, False, '0'
    elif kind == 3:
        v, isnull, text = [], True, '[]'
    elif kind == 4:
        v, isnull, text = s, len(s) == 0, s
    elif kind == 5:
        v, isnull, text = 0.0, False, '0.0'
    else:
        v, isnull, text = (), True, '()'
    ns = {'x': v} if defined else {}
    if not defined:
        try:
            T_NULL(**ns)
            return False
        except KeyError:
            pass
        return T_MISSING(**ns) == 'MISS' and T_BOTH(**ns) == 'MISS'
    if T_NULL(**ns) != ('NIL' if isnull else text):
        return False
    if T_MISSING(**ns) != text:
        return False
    return T_BOTH(**ns) == ('NIL' if isnull else text.upper())


NUMS = [0, 7, 42, 999, 12345, -3]


def ob_null_fmt(n: int, isnone: bool) -> bool:
    v = NUMS[pick(n, len(NUMS))]
    out = T_NULL_FMT(x=None if isnone else v)
    if isnone:
        return out == 'NIL'
    return out == '%03d' % v


# ------------------------------------------------------------------ (d) modifier laws
ASCII_PRE = ['len(s) <= %d', 'all(ord(ch) < 128 for ch in s)']
T_LOWER, T_UPPER, T_CAP, T_SPACIFY = cooked('<dtml-var x lower>'), cooked('<dtml-var x upper>'), cooked('<dtml-var x capitalize>'), cooked('<dtml-var x spacify>')


def ob_case_ascii(s: str) -> bool:
    return T_LOWER(x=s) == s.lower() and T_UPPER(x=s) == s.upper() and T_CAP(x=s) == s.capitalize()


CASEPOOL = ['ß', 'ǆ', 'İ', 'ﬁ', 'Σ', 'ς', 'é', 'É', 'a', 'Z', '1', ' ', 'ŉ', 'ǅ']


def ob_case_unicode(a: int, b: int, c: int) -> bool:
    s = CASEPOOL[pick(a, len(CASEPOOL))] + CASEPOOL[pick(b, len(CASEPOOL))] + CASEPOOL[pick(c, len(CASEPOOL))]
    with NoTracing():
        return T_LOWER(x=s) == s.lower() and T_UPPER(x=s) == s.upper() and T_CAP(x=s) == s.capitalize()


def ob_spacify(s: str) -> bool:
    return T_SPACIFY(x=s) == s.replace('_', ' ')


T_THOU = cooked('<dtml-var x thousands_commas>')
T_THOU_FMT = cooked('<dtml-var x fmt=comma-numeric>') if 'comma-numeric' in DT_Var.special_formats else None


PREFIXES = ['', '-', '$', '+', '-$']
TAILS = ['', '.5', '.123456', '.']
DIGITS = '9081726354' * 2


def ob_thousands(nd: int, p: int, t: int, off: int) -> bool:
    """numeric literals [sign/$] + n digits + [.tail]: exactly the integer part is grouped in threes from the right"""
    n = pick(nd, 16) + 1
    o = pick(off, 4)
    digits = DIGITS[o:o + n]
    if digits[0] == '0':
        digits = '1' + digits[1:]
    prefix, tail = PREFIXES[pick(p, len(PREFIXES))], TAILS[pick(t, len(TAILS))]
    with NoTracing():
        s = prefix + digits + tail
        want = prefix + format(int(digits), ',') + tail
        out = T_THOU(x=s)
        if out != want or out.replace(',', '') != s:
            return False
        if T_THOU_FMT is not None and T_THOU_FMT(x=s) != want:
            return False
        if not tail and not prefix:
            return T_THOU(x=int(digits)) == want          # an int value: str() form grouped
        return True


T_UQ, T_UQP = cooked('<dtml-var x url_quote>'), cooked('<dtml-var x url_quote_plus>')
T_UU, T_UUP = cooked('<dtml-var x url_unquote>'), cooked('<dtml-var x url_unquote_plus>')


URLPOOL = [' ', '+', '%', '/', '&', '=', '?', 'a', 'é', '€', '\U0001F600', '\n', '%2', '%zz', '#', '~', '"', '%41', '%2B', "'", '<']


def make_url_pool(k):
    def ob(a: int, b: int, c: int) -> bool:
        idx = [pick(a, len(URLPOOL)), pick(b, len(URLPOOL)), pick(c, len(URLPOOL))][:k]
        with NoTracing():
            s = ''.join(URLPOOL[i] for i in idx)
            q, qp = T_UQ(x=s), T_UQP(x=s)
            if T_UU(x=q) != s or T_UUP(x=qp) != s:
                return False
            for ch in q + qp:                       # quoted text is plain ASCII without blanks or HTML/URL-reserved characters
                if ord(ch) > 126 or ch in ' "<>&?#=\'':
                    return False
            return True
    ob.__name__ = 'ob_url_pool_%d' % k
    return ob


T_SQL = cooked('<dtml-var x sql_quote>')


def ob_sql(s: str) -> bool:
    out = T_SQL(x=s)
    if out != o_sql_quote(s):
        return False
    for ch in out:
        if ch == '\x00' or ch == '\x1a' or ch == '\r':
            return False
    # no single quote survives un-doubled: removing every pair '' leaves no quote
    rest = out.replace("''", '')
    return "'" not in rest


def ob_sql_bytes(s: str) -> bool:
    for ch in s:
        if 0xD800 <= ord(ch) <= 0xDFFF:
            return True
    out = DT_Var.sql_quote(s.encode('utf-8'))
    return out == o_sql_quote(s)


# ------------------------------------------------------------------ (e) fmt before modifiers before truncation
T_PIPE = cooked('<dtml-var x fmt="%s_end here" spacify upper size=9 etc="~">')
T_FMT_D = cooked('<dtml-var x fmt="%d items" upper>')
T_FMT_METHOD = cooked('<dtml-var x fmt=strip upper size=3 etc="">')
T_FMT_LEN = cooked('<dtml-var x fmt=collection-length thousands_commas>')
T_FMT_DOLLARS = cooked('<dtml-var x fmt=whole-dollars>|<dtml-var x fmt=dollars-and-cents>')
T_CFMT = cooked('%(x upper)5s|%(y)03d', String)


def ob_pipe(j: int) -> bool:
    s = POOL[pick(j, len(POOL))]
    with NoTracing():
        want = o_truncate(o_spacify(s + '_end here').upper(), 9, '~')
        return T_PIPE(x=s) == want


def ob_fmt_method(s: str) -> bool:
    return T_FMT_METHOD(x=s) == o_truncate(s.strip().upper(), 3, '')


def ob_fmt_len(n: int) -> bool:
    k = pick(n, 1201)
    with NoTracing():
        return T_FMT_LEN(x=[0] * k) == format(k, ',')


def ob_fmt_int(n: int) -> bool:
    if n < -20 or n > 20:
        return True
    return T_FMT_D(x=n) == ('%d ITEMS' % n) and T_FMT_DOLLARS(x=n) == '$%d|$%d.00' % (n, n)


SHORT = ['', 'a', 'ab', 'Abc', 'abcde', 'abcdefg', 'ß', ' x']


def ob_cfmt(j: int, n: int) -> bool:
    s = SHORT[pick(j, len(SHORT))]
    v = NUMS[pick(n, 4)]
    with NoTracing():
        return T_CFMT(x=s, y=v) == ' ' * (5 - len(s)) + s.upper() + '|' + '%03d' % v


T_CF = {k: cooked(v, String) for k, v in {
    'hq_d': '%(y html_quote)05d', 'hq_s': '%(x html_quote)6s', 'plain_d': '%(y)05d', 'upper_s': '%(x upper)6s', 'null_d': '%(y null="n")05d',
    'hq_f': '%(y html_quote).2f', 'hq_dots': '%(x html_quote).2s'}.items()}


def ob_cfmt_with_options(j: int, n: int) -> bool:
    """the C-style format of a %(..)fmt tag is applied whatever single option accompanies it"""
    s = SHORT[pick(j, len(SHORT))]
    v = NUMS[pick(n, 4)]
    with NoTracing():
        return (T_CF['hq_d'](y=v) == '%05d' % v and T_CF['plain_d'](y=v) == '%05d' % v and T_CF['null_d'](y=v) == '%05d' % v
                and T_CF['hq_f'](y=v) == '%.2f' % v and T_CF['hq_s'](x=s) == ref_escape('%6s' % s) and T_CF['upper_s'](x=s) == ('%6s' % s).upper()
                and T_CF['hq_dots'](x=s) == ref_escape('%.2s' % s))


def explain(obname, args):
    return ''


OBLIGATIONS = []
NS = tier(3, 4)
for _i, _a in enumerate(SYM_MODS):
    for _b in SYM_MODS[_i + 1:]:
        OBLIGATIONS.append(Ob('pair_%s_%s' % (_a, _b), make_pair_sym(_a, _b), ['len(s) <= %d' % tier(2, 3)], timeout=tier(280, 900),
                              data='value s: any str, len <= %d' % tier(2, 3), selectors='modifiers %s, %s written in both orders' % (_a, _b),
                              outside='values longer than %d' % NS))
OBLIGATIONS.append(Ob('pairs_pool', ob_pairs_pool, ['0 <= k < %d' % len(PAIRS), '0 <= j < %d' % len(POOL)], timeout=tier(280, 900), path_timeout=60,
                      data='-', selectors='every pair of the 12 modifiers (%d pairs) in both orders and three syntaxes x %d pool strings (untraced render per path)' % (len(PAIRS), len(POOL)),
                      stubs='render runs untraced once pair and string are fixed on the path'))
OBLIGATIONS.append(Ob('triples_pool', ob_triples_pool, ['0 <= k < %d' % len(TRIPLES), '0 <= j < %d' % len(POOL)], timeout=tier(200, 900),
                      data='-', selectors='%d modifier triples in all 6 written orders x pool strings' % len(TRIPLES)))
for _z in tier((0, 1, 2, 3, 4, 5), tuple(range(0, 9))):
    for _e in (('default',) if _z not in (3, 4) else tuple(ETCS)):
        n = tier(5, 6) if _z <= 4 else _z + 2
        OBLIGATIONS.append(Ob('trunc_size%d_%s' % (_z, _e), make_trunc(_z, _e), ['len(s) <= %d' % n], timeout=tier(250, 1200),
                              data='value s: any str, len <= %d' % n, selectors='size=%d etc=%s' % (_z, _e), outside='values longer than %d' % n))
OBLIGATIONS.append(Ob('null_missing', ob_null, ['0 <= kind <= 6', 'len(s) <= 2'], timeout=tier(200, 600), data='value kind, definedness, s', selectors='null=/missing= with None, "", 0, [], str, 0.0, ()'))
OBLIGATIONS.append(Ob('null_fmt', ob_null_fmt, ['0 <= n < %d' % len(NUMS)], timeout=tier(200, 600), data='None bit; number picked from %r' % NUMS, selectors='null= with a C-style fmt'))
OBLIGATIONS.append(Ob('case_ascii', ob_case_ascii, ['len(s) <= 2', 'all(ord(ch) < 128 for ch in s)'], timeout=tier(280, 900), data='s: ASCII str len <= 2',
                      selectors='lower/upper/capitalize', outside='symbolic non-ASCII case mapping (see case_unicode pool)'))
OBLIGATIONS.append(Ob('case_unicode', ob_case_unicode, ['0 <= a < 14', '0 <= b < 14', '0 <= c < 14'], timeout=tier(280, 900), data='-', selectors='3 characters from a pool of special-casing code points %r' % CASEPOOL))
OBLIGATIONS.append(Ob('spacify', ob_spacify, ['len(s) <= %d' % tier(4, 5)], timeout=tier(200, 600), data='s any str', selectors='spacify'))
OBLIGATIONS.append(Ob('thousands', ob_thousands, ['0 <= nd < 16', '0 <= p < %d' % len(PREFIXES), '0 <= t < %d' % len(TAILS), '0 <= off < 4'], timeout=tier(280, 900), path_timeout=60,
                      data='-', selectors='numeric literals: 1..16 digits x prefixes %r x tails %r x 4 digit patterns (digit VALUES do not influence grouping; untraced per path)' % (PREFIXES, TAILS),
                      outside='non-literal text around digits (the in-code doc example "12000 widgets" is not grouped by the code; the statement speaks of the integer part of a value)',
                      stubs='render runs untraced once the literal is fixed on the path'))
NP = len(URLPOOL)
OBLIGATIONS.append(Ob('url_roundtrip_pool', make_url_pool(tier(2, 3)), ['0 <= a < %d' % NP, '0 <= b < %d' % NP, '0 <= c < %d' % NP], timeout=tier(280, 1200), path_timeout=60,
                      data='-', selectors='%d tokens from %r (urllib on symbolic text does not finish: stated bound is this pool)' % (tier(2, 3), URLPOOL),
                      stubs='render runs untraced once the string is fixed on the path'))
OBLIGATIONS.append(Ob('sql_quote', ob_sql, ['len(s) <= %d' % tier(4, 5)], timeout=tier(280, 900), data='s any str', selectors='sql_quote safety and exact form'))
OBLIGATIONS.append(Ob('sql_quote_bytes', ob_sql_bytes, ['len(s) <= 2'], timeout=tier(280, 900), data='s any str (encodable), passed as UTF-8 bytes', selectors='sql_quote on bytes'))
OBLIGATIONS.append(Ob('pipeline', ob_pipe, ['0 <= j < %d' % len(POOL)], timeout=tier(200, 600), data='-', selectors='pool strings through fmt="%s_end here" spacify upper size=9 etc="~" (fmt, then modifiers, then truncation)'))
OBLIGATIONS.append(Ob('fmt_method', ob_fmt_method, ['len(s) <= 3', 'all(ord(ch) < 128 for ch in s)'], timeout=tier(280, 900), data='s ASCII len <= 3', selectors='fmt=strip upper size=3'))
OBLIGATIONS.append(Ob('fmt_len', ob_fmt_len, ['0 <= n <= 1200'], timeout=tier(280, 900), data='length 0..1200', selectors='fmt=collection-length thousands_commas'))
OBLIGATIONS.append(Ob('fmt_int', ob_fmt_int, timeout=tier(250, 900), data='int n in -20..20', selectors='fmt="%d items" upper; whole-dollars; dollars-and-cents'))
OBLIGATIONS.append(Ob('cfmt_epfs', ob_cfmt, ['0 <= j < %d' % len(SHORT), '0 <= n < 4'], timeout=tier(200, 600), data='-', selectors='EPFS %(x upper)5s|%(y)03d over short strings and numbers'))
OBLIGATIONS.append(Ob('cfmt_with_options', ob_cfmt_with_options, ['0 <= j < %d' % len(SHORT), '0 <= n < 4'], timeout=tier(200, 600), data='-',
                      selectors='EPFS C-formats %05d / %6s / %.2f / %.2s combined with html_quote, upper, null= over short strings and numbers'))


# ---------------------------------------------------------------- wave 3
from crosshair.tracers import NoTracing      # noqa: E402

SQL_ALPHA = ["'", '\x00', 'a', '\r', '\x1a']


def ob_sql_pool(k1: int, k2: int, k3: int, k4: int, k5: int, n: int) -> bool:
    """sql_quote over every string of length <= 5 built from quote / NUL / CR / Ctrl-Z / letter - untraced, so that implementation
    techniques CrossHair cannot follow (regular expressions with look-around, translate tables) are decided too"""
    s = ''.join(SQL_ALPHA[pick(k, 5)] for k in (k1, k2, k3, k4, k5)[:pick(n, 6)])
    with NoTracing():
        out = T_SQL(x=s)
        if out != o_sql_quote(s) or DT_Var.sql_quote(s.encode('utf-8')) != o_sql_quote(s):
            return False
        return "'" not in out.replace("''", '')


OBLIGATIONS.append(Ob('sql_quote_pool', ob_sql_pool, ['0 <= k%d < 5' % i for i in (1, 2, 3, 4, 5)] + ['0 <= n <= 5'], timeout=tier(250, 900), path_timeout=60,
                      data='-', selectors="every string of length <= 5 over {', NUL, a, CR, Ctrl-Z} (3906 strings by path forking), str and bytes",
                      stubs='render runs untraced once the string is fixed on the path'))

NULL_FMTS = ['%s', '[%s]', 'collection-length', 'upper', 'multi-line', 'html-quote', 'url-quote', 'strip', '%r', 'sql-quote', '']
T_NULL_FMTS = [cooked('<dtml-var x null="NIL" fmt="%s">' % f) for f in NULL_FMTS]
T_NULL_FMTS_E = [cooked('%%(x null="NIL" fmt="%s")s' % f, String) for f in NULL_FMTS]
T_NULL_MODS = cooked('<dtml-var x null="NIL" upper html_quote size=2 etc="!">|<dtml-var "x" null="NIL" thousands_commas>')


def ob_null_before_fmt(f: int, kind: int, epfs: bool) -> bool:
    """null= is decided BEFORE fmt=: a null value (None, or false but not 0) yields the null text whatever the format would have
    made of it; 0 is formatted"""
    fi = pick(f, len(NULL_FMTS))
    kk = pick(kind, 6)
    ep = bool(epfs)
    with NoTracing():
        v = [None, '', [], (), {}, 0][kk]
        t = (T_NULL_FMTS_E if ep else T_NULL_FMTS)[fi]
        try:
            out = t(x=v)
        except Exception:
            return kk == 5            # only the non-null value may fail to format (e.g. 0 has no 'upper')
        if kk == 5:
            return out != 'NIL'
        return out == 'NIL' and T_NULL_MODS(x=v) == 'NIL|NIL'


OBLIGATIONS.append(Ob('null_before_fmt', ob_null_before_fmt, ['0 <= f < %d' % len(NULL_FMTS), '0 <= kind < 6'], timeout=tier(200, 600), path_timeout=60,
                      data='-', selectors='null="NIL" with fmt in %r; value None / "" / [] / () / {} / 0; HTML and EPFS syntax; also with modifiers and size' % NULL_FMTS,
                      stubs='render runs untraced once the selectors are fixed on the path'))


# ---------------------------------------------------------------- wave 4
T_MISS_CALL = cooked('<dtml-var f missing="MISS">')
T_MISS_SUB = cooked('<dtml-var sub missing="MISS">|<dtml-var other missing="M2" null="N2">')
T_MISS_INNER = HTML('<dtml-var inner>')
T_MISS_INNER.cook()


def ob_missing_only_undefined(kind: int, defined: bool) -> bool:
    """missing= replaces an UNDEFINED name only: a defined name whose value (a callable, a sub-template) fails with its own KeyError /
    NameError / AttributeError still fails with that error"""
    if kind == 0:
        exc = KeyError('pear')
    elif kind == 1:
        exc = KeyError('f')
    elif kind == 2:
        exc = NameError('f')
    else:
        exc = AttributeError('f')

    def f():
        raise exc
    if not defined:
        return T_MISS_CALL() == 'MISS' and T_MISS_SUB() == 'MISS|M2'
    try:
        T_MISS_CALL(f=f)
        return False
    except (KeyError, NameError, AttributeError) as e:
        if e is not exc:
            return False
    try:
        T_MISS_SUB(sub=T_MISS_INNER)
        return False
    except KeyError as e:
        return e.args == ('inner',)


OBLIGATIONS.append(Ob('missing_only_for_undefined', ob_missing_only_undefined, ['0 <= kind <= 3'], timeout=tier(100, 300), data='error kind raised while computing a DEFINED value; definedness bit',
                      selectors='missing= with a callable value raising KeyError / NameError / AttributeError and with a sub-template whose own variable is undefined'))
