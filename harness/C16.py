"""C16 - summary statistics inside dtml-in equal independently computed values (E2 Real + E2 Float64 + E1)."""
import math
import os
import subprocess
import tempfile
import time
from fractions import Fraction

import z3

from DocumentTemplate import DT_InSV
from vlib import astsmt
from vlib.astsmt import Explorer, Interp, Obj, Unsupported, model_value
from vlib.ob import Ob, tier
from harness.common import HTML, cooked

EXPLANATION = (
    'E2/Real: sequence_variables.statistics is executed symbolically from its live AST for n numeric items (mathematical reals, '
    'and mathematical ints), optionally interleaved with None items; on every leaf z3 decides the textbook identities for '
    'count/total/mean/variance-n/variance/standard deviations/min/max/median (unsat = holds for ALL values on that path). '
    'E2/Float64: the same AST is executed over IEEE-754 doubles (RNE); for every sqrt call reached, the query "argument < 0" '
    'under the path condition is exported as SMT-LIB and decided by the cvc5 binary (statistics must not raise ValueError), '
    'and the even-count median must lie between the two middle values. E1: CrossHair renders real dtml-in templates over mixes '
    'of ints, None and strings and compares every statistic with an independent oracle.')

SV = DT_InSV.sequence_variables
STAT = SV.statistics
TRUSTED_EXTRA = ['cvc5 1.0.3 binary for QF_FP queries (z3 cross-check in the thorough tier)']
FN = ['DocumentTemplate/DT_InSV.py:sequence_variables.statistics']


# ------------------------------------------------------------------ E2 symbolic run
def explore(pattern, mode, sort, optimistic=False, timeout_ms=20000):
    """pattern: string over 'x' (symbolic number) and 'N' (None item).  -> (leaves, explorer, xs)"""
    xs = []
    for ch in pattern:
        if ch == 'x':
            xs.append(sort('x%d' % len(xs)))
        elif ch == 'i':
            xs.append(z3.Int('x%d' % len(xs)))          # an int item inside a column of another sort
    ex = Explorer(timeout_ms=timeout_ms, max_paths=20000)
    if optimistic:
        ex.feasible = lambda pc: True
    else:
        def feasible(pc, ex=ex):
            r, _ = ex.check(pc)
            return r != 'unsat'          # 'unknown' (non-linear arithmetic) is over-approximated as feasible
        ex.feasible = feasible
    interp = Interp(vars(DT_InSV), mode=mode)

    def thunk(st):
        it = iter(xs)
        items = [{'x': (next(it) if ch in 'xi' else None)} for ch in pattern]
        data = {'mapping': True}
        selfo = Obj(items=items, data=data, statistic_names=SV.statistic_names)
        interp.call(STAT, [selfo, 'x', 'total-x'], st)
        out = dict(data)
        out['__events__'] = list(st.events)
        return out
    return ex.explore(thunk), ex, xs


VECTORS = [[1], [1, 2], [2, 1], [1, 2, 3], [3, 1, 2], [0.5, 0.25], [0.1, 0.1, 0.1], [1, None, 3], [None, 2.5], [1, 2, 3, 4], [4, 3, 2, 1, 0],
           [-1, 1], [1e6, -1e6, 0.5], [2, 2, 2, 2], [1.5, 2, 3], [10, 0, -10, 5, 5], [0, 0], [7, None, None, 7, 8]]


def validate_translator():
    """concrete mode: the interpreter executes the same AST on concrete items and must reproduce the real function's results
    (every statistic, bit for bit); -> number of vectors compared"""
    n = 0
    for vals in VECTORS:
        for mode in ('real', 'fp'):
            ex = Explorer()
            interp = Interp(vars(DT_InSV), mode=mode)

            def thunk(st, vals=vals, interp=interp):
                data = {'mapping': True}
                selfo = Obj(items=[{'x': v} for v in vals], data=data, statistic_names=SV.statistic_names)
                interp.call(STAT, [selfo, 'x', 'total-x'], st)
                return dict(data)
            leaves = ex.explore(thunk)
            if len(leaves) != 1 or leaves[0].kind != 'return':
                raise Unsupported('translator validation: concrete run of %r forked or raised' % (vals,))
            got = leaves[0].value
            want = real_stats(vals)
            for k, w in want.items():
                g = got.get('%s-x' % k)
                if g != w and not (isinstance(g, float) and isinstance(w, float) and abs(g - w) <= 1e-12 * max(1.0, abs(w))):
                    raise Unsupported('translator validation failed for %r: %s-x interpreter %r, real code %r' % (vals, k, g, w))
            n += 1
    return n


def R(v):
    if astsmt.is_sym(v):
        return z3.ToReal(v) if z3.is_int(v) else v
    if isinstance(v, bool):
        raise Unsupported('bool statistic')
    if isinstance(v, int):
        return z3.RealVal(v)
    if isinstance(v, float):
        return z3.RealVal(repr(v))
    raise Unsupported('non-numeric statistic %r' % (v,))


def real_theorems(d, xs):
    """-> list of (name, z3 claim) for one leaf's data dict; claims are over mathematical reals"""
    n = len(xs)
    X = [R(x) for x in xs]
    tot = z3.Sum(X) if n > 1 else X[0]
    mean = tot / n
    ss = z3.Sum([(x - mean) * (x - mean) for x in X]) if n > 1 else (X[0] - mean) * (X[0] - mean)
    th = []
    th.append(('count', z3.BoolVal(d['count-x'] == n)))
    th.append(('total', R(d['total-x']) == tot))
    th.append(('mean', R(d['mean-x']) == mean))
    th.append(('variance-n', R(d['variance-n-x']) == ss / n))
    sdn = R(d['standard-deviation-n-x'])
    th.append(('standard-deviation-n', z3.And(sdn >= 0, sdn * sdn == ss / n)))
    if n >= 2:
        th.append(('variance', R(d['variance-x']) == ss / (n - 1)))
        sd = R(d['standard-deviation-x'])
        th.append(('standard-deviation', z3.And(sd >= 0, sd * sd == ss / (n - 1))))
    else:
        th.append(('variance', z3.BoolVal(d['variance-x'] == '' and d['standard-deviation-x'] == '')))
    mn, mx = R(d['min-x']), R(d['max-x'])
    th.append(('min', z3.And(z3.And(*[mn <= x for x in X]), z3.Or(*[mn == x for x in X]))))
    th.append(('max', z3.And(z3.And(*[mx >= x for x in X]), z3.Or(*[mx == x for x in X]))))
    med = R(d['median-x'])
    # middle value(s) characterised without reference to the code's own sort: m is a median iff at least half of the
    # values are <= hi and at least half are >= lo, where lo/hi are order statistics
    le = lambda v: z3.Sum([z3.If(x <= v, 1, 0) for x in X])      # noqa: E731
    ge = lambda v: z3.Sum([z3.If(x >= v, 1, 0) for x in X])      # noqa: E731
    if n % 2:
        k = n // 2 + 1
        th.append(('median', z3.And(z3.Or(*[med == x for x in X]), le(med) >= k, ge(med) >= k)))
    else:
        k = n // 2
        # lo = k-th smallest, hi = (k+1)-th smallest; lo <= med <= hi
        lo_ok = z3.Or(*[z3.And(le(x) >= k, ge(x) >= k + 1, x <= med) for x in X])
        hi_ok = z3.Or(*[z3.And(le(x) >= k + 1, ge(x) >= k, med <= x) for x in X])
        th.append(('median', z3.And(lo_ok, hi_ok)))
    return th


def make_real(pattern, kind):
    sort = z3.Real if kind == 'real' else z3.Int

    def run(extra=()):
        t0 = time.time()
        try:
            nvec = validate_translator()
            leaves, ex, xs = explore(pattern, 'real', sort)
        except Unsupported as u:
            return {'status': 'inconclusive', 'message': 'astsmt: %s' % u}
        bad = None
        unknown = 0
        nq = 0
        for lf in leaves:
            if lf.kind != 'return':
                r, m = ex.check(lf.pc)
                nq += 1
                if r == 'sat':
                    bad = ('statistics raises %s' % getattr(lf.value, '__name__', lf.value), m, 'no-exception')
                    break
                if r == 'unknown':
                    unknown += 1
                continue
            try:
                ths = real_theorems(lf.value, xs)
            except Unsupported as u:
                bad = ('statistic has an unexpected form: %s' % u, ex.check(lf.pc)[1], 'form')
                break
            for name, claim in ths:
                if kind == 'int' and name.startswith('standard-deviation'):
                    continue      # non-linear INTEGER inequality; the same arithmetic is decided over the reals (superset) in the real obligations
                r, m = ex.check(lf.pc + [z3.Not(claim)])
                nq += 1
                if r == 'unknown':
                    unknown += 1
                elif r == 'sat':
                    bad = ('%s-x differs from the independently computed value' % name, m, name)
                    break
            if bad:
                break
        samples = []
        for lf in leaves[:2]:
            r, m = ex.check(lf.pc)
            if r == 'sat' and lf.kind == 'return':
                samples.append({'inputs': [model_value(m, x) for x in xs], 'median-x': str(lf.value.get('median-x'))[:80]})
        res = {'paths': len(leaves), 'queries': ex.queries, 'solver_s': round(ex.solver_s, 3), 'wall_s': round(time.time() - t0, 2),
               'functions': FN, 'samples': samples}
        if bad:
            what, m, name = bad
            vals = [model_value(m, x) for x in xs] if m is not None else None
            res.update(status='refuted', cex={'pattern': pattern, 'kind': kind, 'values': vals, 'stat': name},
                       message='%s for items %r (pattern %s)' % (what, vals, pattern))
        elif unknown:
            res.update(status='inconclusive', message='%d of %d leaf queries answered unknown' % (unknown, nq))
        else:
            res.update(status='confirmed', message='all statistics identities unsat-negated on %d leaves (%d queries), items: %s; %d translator vectors agree' % (len(leaves), nq, kind, nvec))
        return res
    return run


# concrete oracle (exact rational arithmetic) used by replays and by E1
def exact_stats(vals):
    fr = [Fraction(v) for v in vals]
    n = len(fr)
    tot = sum(fr)
    mean = tot / n
    ss = sum((x - mean) ** 2 for x in fr)
    srt = sorted(fr)
    out = {'count': n, 'total': tot, 'mean': mean, 'variance-n': ss / n, 'variance': (ss / (n - 1)) if n > 1 else None,
           'min': srt[0], 'max': srt[-1]}
    out['median_lo'] = srt[(n - 1) // 2]
    out['median_hi'] = srt[n // 2]
    return out


EPS = 2.220446049250313e-16


def close(a, b, scale):
    """floating-point results may differ from the exact value by the rounding error of the one-pass formulas, which is
    proportional to the magnitude of the intermediate sums (scale), not to the result"""
    return abs(float(a) - float(b)) <= 256 * EPS * float(scale) + 1e-300


def real_stats(items_vals):
    sv = SV([{'x': v} for v in items_vals])
    sv.data['mapping'] = True
    names = ['count', 'total', 'mean', 'variance-n', 'variance', 'standard-deviation-n', 'standard-deviation', 'min', 'max', 'median']
    return {k: sv['%s-x' % k] for k in names}


def replay_real(cex):
    pattern, vals = cex['pattern'], cex['values']
    it = iter(vals)
    items = [(next(it) if ch in 'xi' else None) for ch in pattern]
    try:
        got = real_stats(items)
    except Exception as e:
        return False, 'statistics raised %s: %s for items %r' % (type(e).__name__, e, items)
    ex = exact_stats(vals)
    n = len(vals)
    s1 = sum(abs(float(v)) for v in vals) or 1e-300           # magnitude of the running sum
    s2 = sum(float(v) * float(v) for v in vals) / n or 1e-300  # magnitude of sumsq / n (cancellation scale of the variance)
    if got['count'] != ex['count'] or float(got['min']) != float(ex['min']) or float(got['max']) != float(ex['max']):
        return False, 'count/min/max = %r/%r/%r, exact %s/%s/%s, items %r' % (got['count'], got['min'], got['max'], ex['count'], ex['min'], ex['max'], items)
    for k, scale in (('total', s1), ('mean', s1 / n), ('variance-n', s2)):
        if not close(got[k], ex[k], scale):
            return False, '%s-x = %r, exact value %s (beyond the rounding error of the formula), items %r' % (k, got[k], float(ex[k]), items)
    if ex['variance'] is None:
        if got['variance'] != '':
            return False, 'variance-x = %r for a single value' % (got['variance'],)
    else:
        if not close(got['variance'], ex['variance'], s2 * n / (n - 1)):
            return False, 'variance-x = %r, exact %s, items %r' % (got['variance'], float(ex['variance']), items)
        if not close(float(got['standard-deviation']) ** 2, got['variance'], abs(float(got['variance'])) + 1e-300):
            return False, 'standard-deviation-x = %r is not the root of variance-x = %r' % (got['standard-deviation'], got['variance'])
    if not close(float(got['standard-deviation-n']) ** 2, got['variance-n'], abs(float(got['variance-n'])) + 1e-300):
        return False, 'standard-deviation-n-x = %r is not the root of variance-n-x = %r' % (got['standard-deviation-n'], got['variance-n'])
    m = got['median']
    if not (float(ex['median_lo']) <= float(m) <= float(ex['median_hi'])):
        return False, 'median-x = %r is not between the middle values %s and %s of %r' % (m, ex['median_lo'], ex['median_hi'], items)
    return True, 'real statistics agree with exact arithmetic for %r' % (items,)


# ------------------------------------------------------------------ E2 Float64
BOUND = 1e6


def fp_domain(xs):
    cs = []
    for x in xs:
        cs += [z3.Not(z3.fpIsNaN(x)), z3.Not(z3.fpIsInf(x)), z3.fpLEQ(x, z3.FPVal(BOUND, astsmt.F64)), z3.fpGEQ(x, z3.FPVal(-BOUND, astsmt.F64))]
    return cs


def to_smt2(assertions):
    s = z3.Solver()
    s.add(*assertions)
    return '(set-logic ALL)\n(set-option :produce-models true)\n' + s.to_smt2().replace('(check-sat)', '') + '(check-sat)\n(get-model)\n'


def run_cvc5(text, timeout_s):
    """decide an SMT-LIB text with the cvc5 binary (no z3 calls: safe to run in a thread); -> (verdict, output, seconds)"""
    fd, path = tempfile.mkstemp(suffix='.smt2', prefix='c16_')
    os.write(fd, text.encode())
    os.close(fd)
    t0 = time.time()
    try:
        p = subprocess.run(['cvc5', '--tlimit=%d' % int(timeout_s * 1000), path], capture_output=True, text=True, timeout=timeout_s + 10)
        out = p.stdout + p.stderr
    except subprocess.TimeoutExpired:
        out = 'timeout'
    finally:
        os.unlink(path)
    dt = time.time() - t0
    lines = [ln.strip() for ln in out.strip().split('\n') if ln.strip()]
    first = lines[0] if lines else 'unknown'
    errs = [ln for ln in lines[1:] if ln.startswith('(error') and 'Cannot get model' not in ln]
    if first not in ('sat', 'unsat') or errs or lines[0].startswith('(error'):
        return 'unknown', out[:300], dt
    return first, out, dt


def parse_cvc5_model(out, names):
    import re
    import struct
    vals = {}
    for nm in names:
        m = re.search(r'\(define-fun %s \(\) \(_ FloatingPoint 11 53\) \(fp #b([01]) #b([01]+) #b([01]+)\)\)' % nm, out)
        if not m:
            return None
        bits = int(m.group(1) + m.group(2) + m.group(3), 2)
        vals[nm] = struct.unpack('<d', struct.pack('<Q', bits))[0]
    return [vals[n] for n in names]


def decide_fp_all(queries, xs, timeout_s, cross):
    """queries: list of assertion lists.  cvc5 binary in parallel (threads only wait on subprocesses); z3 sequentially in
    this thread as cross-check / fall-back.  -> list of (verdict, values|None, info)"""
    import concurrent.futures as cf
    texts = [to_smt2(q) for q in queries]
    with cf.ThreadPoolExecutor(max_workers=6) as pool:
        outs = list(pool.map(lambda t: run_cvc5(t, timeout_s), texts))
    res = []
    for q, (r, out, dt) in zip(queries, outs):
        info = 'cvc5 %s %.1fs' % (r, dt)
        vals = parse_cvc5_model(out, [str(x) for x in xs]) if r == 'sat' else None
        if r == 'unknown' or cross:
            s = z3.Solver()
            s.set('timeout', int(timeout_s * 1000))
            s.add(*q)
            t0 = time.time()
            rz = str(s.check())
            info += '; z3 %s %.1fs' % (rz, time.time() - t0)
            if rz in ('sat', 'unsat'):
                if r in ('sat', 'unsat') and r != rz:
                    res.append(('unknown', None, info + ' (solvers disagree)'))
                    continue
                r = rz
                if rz == 'sat' and vals is None:
                    m = s.model()
                    vals = [model_value(m, x) for x in xs]
        res.append((r, vals, info))
    return res


def make_fp(n, what):
    def run(extra=()):
        t0 = time.time()
        try:
            nvec = validate_translator()
            leaves, ex, xs = explore('x' * n, 'fp', lambda nm: z3.FP(nm, astsmt.F64), optimistic=True)
        except Unsupported as u:
            return {'status': 'inconclusive', 'message': 'astsmt: %s' % u}
        dom = fp_domain(xs)
        queries = {}
        if what == 'sqrt':
            # every sqrt call reached on any (over-approximated) path: argument must not be negative
            for lf in leaves:
                evs = lf.value['__events__'] if lf.kind == 'return' else lf.events
                for ev in evs:
                    if ev[0] == 'sqrt':
                        arg, pc = ev[1], ev[2] if len(ev) > 2 else lf.pc
                        goal = z3.fpLT(arg, z3.FPVal(0.0, astsmt.F64))
                        key = z3.And(*(list(pc) + [goal])).sexpr()
                        queries.setdefault(key, list(pc) + [goal])
        else:
            for lf in leaves:
                if lf.kind != 'return':
                    continue
                med = lf.value.get('median-x')
                if not astsmt.is_sym(med) or not z3.is_fp(med):
                    continue
                lo = [z3.fpLEQ(x, med) for x in xs]
                hi = [z3.fpGEQ(x, med) for x in xs]
                k = n // 2
                cnt = lambda bs: z3.Sum([z3.If(b, 1, 0) for b in bs])     # noqa: E731
                claim = z3.And(cnt(lo) >= k, cnt(hi) >= k, z3.Not(z3.fpIsNaN(med)))
                goal = z3.Not(claim)
                key = z3.And(*(list(lf.pc) + [goal])).sexpr()
                queries.setdefault(key, list(lf.pc) + [goal])
        cap = tier(100, 400)
        verdicts, cexv, infos = [], None, []
        for r, vals, info in decide_fp_all([dom + q for q in queries.values()], xs, cap, not tier(True, False)):
            verdicts.append(r)
            infos.append(info)
            if r == 'sat' and cexv is None:
                cexv = vals
        res = {'paths': len(leaves), 'queries': len(queries), 'solver_s': round(time.time() - t0, 2), 'wall_s': round(time.time() - t0, 2), 'functions': FN,
               'samples': [{'distinct_fp_queries': len(queries), 'solver_answers': infos[:6]}]}
        if not queries:
            res.update(status='inconclusive', message='no %s query was generated (vacuous)' % what)
        elif 'sat' in verdicts:
            res.update(status='refuted', cex={'values': cexv, 'what': what},
                       message=('sqrt of a negative variance (ValueError)' if what == 'sqrt' else 'even-count median outside the two middle values') + ' for doubles %r' % (cexv,))
        elif 'unknown' in verdicts:
            res.update(status='inconclusive', message='%d of %d FP queries not decided within %ds: %s' % (verdicts.count('unknown'), len(verdicts), cap, infos[:3]))
        else:
            res.update(status='confirmed', message='%d distinct FP queries unsat (%s); %d translator vectors agree' % (len(queries), '; '.join(infos[:2]), nvec))
        return res
    return run


def replay_fp(cex):
    vals = cex['values']
    if vals is None:
        return True, 'no model values to replay'
    try:
        got = real_stats(vals)
    except ValueError as e:
        return False, 'statistics raised ValueError (%s) for doubles %r' % (e, vals)
    srt = sorted(vals)
    n = len(vals)
    m = got['median']
    if not (srt[(n - 1) // 2] <= m <= srt[n // 2]):
        return False, 'median-x = %r not between %r and %r for doubles %r' % (m, srt[(n - 1) // 2], srt[n // 2], vals)
    return True, 'no ValueError, median in range for %r' % (vals,)


# ------------------------------------------------------------------ E1: real renders over mixed items
NAMES = ['count', 'total', 'mean', 'variance-n', 'variance', 'min', 'max', 'median']
T_STAT = cooked('<dtml-in seq mapping><dtml-if sequence-end><dtml-call "rec(' + ', '.join("_['%s-x']" % k for k in NAMES) + ')"></dtml-if></dtml-in>')
T_STAT_ATTR = cooked('<dtml-in seq><dtml-if sequence-end><dtml-call "rec(' + ', '.join("_['%s-x']" % k for k in NAMES) + ')"></dtml-if></dtml-in>')
T_SD = cooked('<dtml-in seq mapping><dtml-if sequence-end><dtml-call "rec(_[\'standard-deviation-x\'], _[\'standard-deviation-n-x\'], _[\'variance-x\'], _[\'variance-n-x\'])"></dtml-if></dtml-in>')


class P:
    def __init__(self, x):
        self.x = x


def _sqrt_for_e1(x):
    """E1 stub (listed): under CrossHair math.sqrt forces the symbolic real to be realised value by value; the E1 obligations do
    not assert the standard deviations (E2 does), so a traced call only keeps sqrt's domain error and returns a placeholder"""
    from crosshair.tracers import is_tracing
    if not is_tracing():
        return math.sqrt(x)
    if x < 0:
        raise ValueError('math domain error')
    return x


DT_InSV.sqrt = _sqrt_for_e1


WORDS = ['', 'a', 'B', 'ab', 'b']
INTS = [-7, 0, 1, 2, 10]


def pick(k, n):
    lo, hi = 0, n
    while hi - lo > 1:
        mid = (lo + hi) // 2
        if k < mid:
            hi = mid
        else:
            lo = mid
    return lo


def make_ints(n, attr=False):
    """n symbolic ints, each optionally None (symbolic bit): None values are ignored by every statistic"""
    def ob(a: int, b: int, c: int, d: int, na: bool, nb: bool, nc: bool, nd: bool) -> bool:
        vals = [INTS[pick(x, len(INTS))] for x in [a, b, c, d][:n]]
        nn = [na, nb, nc, nd][:n]
        items = [None if nn[i] else vals[i] for i in range(n)]
        live = [v for v in items if v is not None]
        seq = [P(v) for v in items] if attr else [{'x': v} for v in items]
        got = []
        (T_STAT_ATTR if attr else T_STAT)(seq=seq, rec=lambda *a: got.append(a))
        if len(got) != 1:
            return False
        cnt, tot, mean, varn, var, mn, mx, med = got[0]
        k = len(live)
        if cnt != k:
            return False
        if k == 0:
            return tot == '' and mean == '' and mn == '' and mx == '' and med == '' and var == '' and varn == ''
        s = 0
        for v in live:
            s += v
        if tot != s or mn != min(live) or mx != max(live):
            return False
        if mean * k != s:
            return False
        if k == 1 and var != '':
            return False
        srt = sorted(live)
        return srt[(k - 1) // 2] <= med <= srt[k // 2]
    ob.__name__ = 'ob_ints_%d%s' % (n, '_attr' if attr else '')
    return ob


def make_strings(n):
    """non-numeric values yield count, min, max and median only; None ignored"""
    def ob(a: int, b: int, c: int, d: int, na: bool, nb: bool) -> bool:
        ws = [WORDS[pick(x, len(WORDS))] for x in [a, b, c, d][:n]]
        items = list(ws)
        if na:
            items.insert(0, None)
        if nb:
            items.append(None)
        got = []
        T_STAT(seq=[{'x': v} for v in items], rec=lambda *a: got.append(a))
        if len(got) != 1:
            return False
        cnt, tot, mean, varn, var, mn, mx, med = got[0]
        srt = sorted(ws)
        if cnt != n or mn != srt[0] or mx != srt[-1]:
            return False
        if tot != '' or mean != '' or var != '' or varn != '':
            return False
        if n % 2:
            return med == srt[n // 2]
        lo, hi = srt[n // 2 - 1], srt[n // 2]
        if n == 1:
            return med == srt[0]
        return isinstance(med, str) and lo in med and hi in med        # "a text naming them"
    ob.__name__ = 'ob_strings_%d' % n
    return ob


class Stamp:
    """date-like value: ordered, number can be added (gives a Stamp), but no multiplication or division"""

    def __init__(self, t):
        self.t = t

    def __add__(self, other):
        if isinstance(other, (int, float)):
            return Stamp(self.t + other)
        return NotImplemented

    __radd__ = __add__

    def __lt__(self, other):
        return self.t < other.t

    def __gt__(self, other):
        return self.t > other.t

    def __eq__(self, other):
        return isinstance(other, Stamp) and self.t == other.t

    def __hash__(self):
        return hash(self.t)

    def __str__(self):
        return 'S%d' % self.t


def make_stamps(n):
    """date-like values (addable to numbers, not multipliable) are non-numeric data: count, min, max and median only"""
    def ob(a: int, b: int, c: int, d: int, na: bool) -> bool:
        ts = [pick(x, 5) for x in [a, b, c, d][:n]]
        items = [Stamp(t) for t in ts]
        if na:
            items.insert(1, None)
        got = []
        T_STAT(seq=[{'x': v} for v in items], rec=lambda *a: got.append(a))
        if len(got) != 1:
            return False
        cnt, tot, mean, varn, var, mn, mx, med = got[0]
        srt = sorted(ts)
        if cnt != n or mn.t != srt[0] or mx.t != srt[-1]:
            return False
        if tot != '' or mean != '' or var != '' or varn != '':
            return False
        if n % 2:
            return med.t == srt[n // 2]
        return isinstance(med, str) and ('S%d' % srt[n // 2 - 1]) in med and ('S%d' % srt[n // 2]) in med
    ob.__name__ = 'ob_stamps_%d' % n
    return ob


def ob_sd(a: int, b: int, c: int) -> bool:
    """standard deviations are the non-negative square roots of the variances (floats as reals in CrossHair)"""
    got = []
    T_SD(seq=[{'x': a}, {'x': b}, {'x': c}], rec=lambda *x: got.append(x))
    sd, sdn, var, varn = got[0]
    return sd >= 0 and sdn >= 0 and abs(sd * sd - var) <= 1e-6 * (1 + var) and abs(sdn * sdn - varn) <= 1e-6 * (1 + varn)


def explain(obname, args):
    return ''


OBLIGATIONS = []
NR = tier(4, 5)
for _n in range(1, NR + 1):
    for _kind in ('real', 'int'):
        OBLIGATIONS.append(Ob('e2_%s_n%d' % (_kind, _n), make_real('x' * _n, _kind), kind='custom', timeout=tier(200, 900), replay=replay_real, twin=False,
                              engine='E2 astsmt (z3 %s)' % ('Real, nlsat' if _kind == 'real' else 'Int'), data='%d items, each any mathematical %s' % (_n, _kind),
                              selectors='mapping items, all numeric', bounds='n = %d items; values unbounded' % _n,
                              outside='n > %d; IEEE rounding (see the fp obligations)' % NR, stubs='sqrt(x) modelled as fresh r >= 0 with r*r == x'))
for _pat in ('xNx', 'Nxx', 'xxN', 'NxNxN', 'xi', 'ix', 'xix', 'ixix') + tier((), ('xNxx', 'xxNxN', 'iixx', 'xiNi')):
    OBLIGATIONS.append(Ob('e2_real_%s' % _pat, make_real(_pat, 'real'), kind='custom', timeout=tier(200, 900), replay=replay_real, twin=False,
                          engine='E2 astsmt (z3 Real, nlsat)', data='numeric items (any real) interleaved with None items: pattern %s' % _pat,
                          selectors='pattern %s (x = real item, i = int item, N = None)' % _pat, bounds='pattern %s' % _pat, stubs='sqrt(x) modelled as fresh r >= 0 with r*r == x'))
for _n in tier((2, 3), (2, 3, 4)):
    OBLIGATIONS.append(Ob('fp_sqrt_n%d' % _n, make_fp(_n, 'sqrt'), kind='custom', timeout=tier(280, 1500), replay=replay_fp, twin=False,
                          engine='E2 astsmt (Float64 RNE) + cvc5 binary', data='%d IEEE-754 doubles, finite, |x| <= 1e6' % _n,
                          selectors='every sqrt call statistics reaches', bounds='n = %d; |x| <= 1e6' % _n, outside='doubles beyond 1e6 in magnitude; n > 4',
                          stubs='branch feasibility is not checked in fp mode (reachable set over-approximated); sat answers are replayed on the real code'))
for _n in tier((2,), (2, 4)):
    OBLIGATIONS.append(Ob('fp_median_n%d' % _n, make_fp(_n, 'median'), kind='custom', timeout=tier(280, 1500), replay=replay_fp, twin=False,
                          engine='E2 astsmt (Float64 RNE) + cvc5 binary', data='%d IEEE-754 doubles, finite, |x| <= 1e6' % _n,
                          selectors='even-count median', bounds='n = %d; |x| <= 1e6' % _n, outside='doubles beyond 1e6',
                          stubs='branch feasibility is not checked in fp mode; sat answers are replayed on the real code'))
for _n in tier((2, 3), (2, 3, 4)):
    OBLIGATIONS.append(Ob('ints_n%d' % _n, make_ints(_n), ['0 <= a < 5', '0 <= b < 5', '0 <= c < 5', '0 <= d < 5'], timeout=tier(280, 1200),
                          data='which items are None (symbolic bits)', selectors='item values picked by symbolic index from %r (concrete per path: non-linear real arithmetic on symbolic values is decided by E2, not by CrossHair); mapping items' % INTS,
                          stubs='math.sqrt replaced by a domain-checking placeholder while traced (standard deviations are decided by E2)'))
OBLIGATIONS.append(Ob('ints_attr_n2', make_ints(2, True), ['0 <= a < 5', '0 <= b < 5', '0 <= c < 5', '0 <= d < 5'], timeout=tier(280, 1200),
                      data='which items are None (symbolic bits)', selectors='values from %r; attribute items' % INTS))
for _n in tier((2, 3), (2, 3, 4)):
    OBLIGATIONS.append(Ob('strings_n%d' % _n, make_strings(_n), ['0 <= a < 5', '0 <= b < 5', '0 <= c < 5', '0 <= d < 5'], timeout=tier(200, 900),
                          data='word indexes (symbolic) into %r, optional None items at both ends' % WORDS, selectors='non-numeric values'))
for _n in (2, 3):
    OBLIGATIONS.append(Ob('stamps_n%d' % _n, make_stamps(_n), ['0 <= a < 5', '0 <= b < 5', '0 <= c < 5', '0 <= d < 5'], timeout=tier(200, 900),
                          data='ranks (symbolic) of date-like values, optional None item', selectors='date-like non-numeric values (support + with numbers, no *)'))


# ---------------------------------------------------------------- wave 3: column names and row kinds
from crosshair.tracers import NoTracing      # noqa: E402

COLS = ['x', 'n', 'index', 'item_', 'length', 'number', 'var', 'count', 'key', 'end', 'X1', 'letter', 'even', 'value', 'data', 'first', 'total', 'size']
STATS = ['count', 'total', 'mean', 'variance-n', 'variance', 'standard-deviation', 'standard-deviation-n', 'min', 'max', 'median']
VALS3 = [(3, 10, 5), (1, 1, 1), (2, -7, 4)]


def _src_two(c1, c2, mapping=True):
    reads = ', '.join("_['%s-%s']" % (s, c) for c in (c1, c2, c1) for s in STATS)
    return '<dtml-in seq%s><dtml-if sequence-end><dtml-call "rec(%s)"></dtml-if></dtml-in>' % (' mapping' if mapping else '', reads)


T_COLS = {}


def _tcol(c1, c2):
    k = (c1, c2)
    if k not in T_COLS:
        T_COLS[k] = cooked(_src_two(c1, c2))
    return T_COLS[k]


def exact10(vals):
    n = len(vals)
    tot = sum(vals)
    mean = tot / n
    varn = sum((v - mean) ** 2 for v in vals) / n
    var = sum((v - mean) ** 2 for v in vals) / (n - 1) if n > 1 else ''
    srt = sorted(vals)
    return [n, tot, mean, varn, var, math.sqrt(var) if n > 1 else '', math.sqrt(varn), min(vals), max(vals), (srt[(n - 1) // 2], srt[n // 2])]


def same10(got, exp):
    for g, e in zip(got, exp):
        if isinstance(e, tuple):
            if not (e[0] <= g <= e[1]):
                return False
        elif e == '':
            if g != '':
                return False
        elif isinstance(g, str) or abs(g - e) > 1e-9 * max(1.0, abs(e)):
            return False
    return True


T_NS = cooked('<dtml-in seq mapping><dtml-if sequence-end><dtml-call "rec(_)"></dtml-if></dtml-in>')


def ob_column_names(c1: int, c2: int, rot: int) -> bool:
    """the column may have any name - also one that looks like a sequence variable or a statistic (n, index, length, number, count,
    total ...): statistics of two columns read one after the other (and the first one again), starting with ANY of the ten statistics,
    all equal independently computed values"""
    i1, i2, r = pick(c1, len(COLS)), pick(c2, len(COLS)), pick(rot, len(STATS))
    with NoTracing():
        if i1 == i2:
            return True
        n1, n2 = COLS[i1], COLS[i2]
        a, b = VALS3[r % 3], VALS3[(r + 1) % 3]
        seq = [{n1: a[i], n2: b[i]} for i in range(3)]
        got = []

        def rec(md):
            for c in (n1, n2, n1):
                row = {}
                for q in range(len(STATS)):
                    st = STATS[(q + r) % len(STATS)]
                    row[st] = md['%s-%s' % (st, c)]
                got.append([row[st] for st in STATS])
            return ''
        T_NS(seq=seq, rec=rec)
        if len(got) != 3:
            return False
        return same10(got[0], exact10(a)) and same10(got[1], exact10(b)) and same10(got[2], exact10(a))


OBLIGATIONS.append(Ob('column_names', ob_column_names, ['0 <= c1 < %d' % len(COLS), '0 <= c2 < %d' % len(COLS), '0 <= rot < %d' % len(STATS)], timeout=tier(280, 900), path_timeout=60,
                      data='-', selectors='two columns named by a pair from %r, three rows from %r; all ten statistics of column 1, column 2, column 1 again, read in an order that starts at a selected statistic' % (COLS, VALS3),
                      outside='column names containing a hyphen', stubs='render runs untraced once the names are fixed on the path'))


class GetItemOnly:
    """mapping-like row that implements __getitem__ only"""

    def __init__(self, d):
        self._d = d

    def __getitem__(self, k):
        return self._d[k]


class Attrs:
    def __init__(self, d):
        self.__dict__.update(d)


T_ROWS_MAP = cooked(_src_two('x', 'y'))
T_ROWS_ATTR = cooked(_src_two('x', 'y', mapping=False))


def ob_row_kinds(kind: int, v: int, miss: int) -> bool:
    """rows of every kind dtml-in accepts: dicts, mapping-likes with __getitem__ only, objects, (key, row) pairs of either - and a row
    that lacks the column (ignored) or holds None (ignored)"""
    k, vi, ms = pick(kind, 6), pick(v, 3), pick(miss, 4)
    with NoTracing():
        a, b = VALS3[vi], VALS3[(vi + 1) % 3]
        rows = [{'x': a[i], 'y': b[i]} for i in range(3)]
        live_a = list(a)
        if ms == 1:
            del rows[1]['x']
            del live_a[1]
        elif ms == 2:
            rows[2]['x'] = None
            del live_a[2]
        elif ms == 3:
            rows[0]['x'] = None
            del rows[1]['x']
            live_a = [a[2]]
        mapping = k in (0, 1, 4)
        if k == 0:
            seq = rows
        elif k == 1:
            seq = [GetItemOnly(r) for r in rows]
        elif k == 2:
            seq = [Attrs(r) for r in rows]
        elif k == 3:
            seq = [('k%d' % i, Attrs(r)) for i, r in enumerate(rows)]
        elif k == 4:
            seq = [('k%d' % i, r) for i, r in enumerate(rows)]
        else:
            seq = tuple(Attrs(r) for r in rows)
        got = []
        (T_ROWS_MAP if mapping else T_ROWS_ATTR)(seq=seq, rec=lambda *r: got.append(r))
        if len(got) != 1:
            return False
        r = got[0]
        return same10(r[0:10], exact10(live_a)) and same10(r[10:20], exact10(b))


OBLIGATIONS.append(Ob('row_kinds', ob_row_kinds, ['0 <= kind < 6', '0 <= v < 3', '0 <= miss < 4'], timeout=tier(200, 600), path_timeout=60,
                      data='-', selectors='rows as dict / __getitem__-only mapping / object / (key, object) / (key, dict) / tuple of objects; column missing or None in 0-2 rows; values from %r' % (VALS3,),
                      stubs='render runs untraced once the selectors are fixed on the path'))


# ---------------------------------------------------------------- wave 4: non-numeric values whose arithmetic fails in other ways
class StampError(Exception):
    pass


class Stamp2(Stamp):
    """like DateTime: adding two of them raises the library's own error (not TypeError); multiplying raises TypeError"""
    mode = 0

    def __add__(self, other):
        if isinstance(other, (int, float)):
            return Stamp2(self.t + other)
        if Stamp2.mode == 1:
            raise ValueError('cannot add two stamps')
        if Stamp2.mode == 2:
            raise StampError('cannot add two stamps')
        if Stamp2.mode == 3:
            raise ArithmeticError('cannot add two stamps')
        return NotImplemented

    __radd__ = __add__


def make_stamps2(n):
    def ob(a: int, b: int, c: int, d: int, mode: int) -> bool:
        ts = [pick(x, 5) for x in [a, b, c, d][:n]]
        m = pick(mode, 4)
        with NoTracing():
            Stamp2.mode = m
            items = [Stamp2(t) for t in ts]
            got = []
            T_STAT(seq=[{'x': v} for v in items], rec=lambda *a: got.append(a))
            if len(got) != 1:
                return False
            cnt, tot, mean, varn, var, mn, mx, med = got[0]
            srt = sorted(ts)
            if cnt != n or mn.t != srt[0] or mx.t != srt[-1] or tot != '' or mean != '':
                return False
            if n % 2:
                return med.t == srt[n // 2]
            return isinstance(med, str) and ('S%d' % srt[n // 2 - 1]) in med and ('S%d' % srt[n // 2]) in med
    ob.__name__ = 'ob_stamps2_%d' % n
    return ob


for _n in (2, 3, 4):
    OBLIGATIONS.append(Ob('stamps_errors_n%d' % _n, make_stamps2(_n), ['0 <= a < 5', '0 <= b < 5', '0 <= c < 5', '0 <= d < 5', '0 <= mode < 4'], timeout=tier(200, 900), path_timeout=60,
                          data='-', selectors='%d date-like values (ranks 0..4) whose pairwise addition fails with TypeError / ValueError / a custom Exception / ArithmeticError: count, min, max, median (a text naming the two middle values for even counts)' % _n,
                          stubs='render runs untraced once the selectors are fixed on the path'))
