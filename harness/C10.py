"""C10 - dtml-in visits each element once, in order, with correct sequence variables (engine E1)."""
from DocumentTemplate.DT_Util import SequenceFromIter

from vlib.ob import Ob, tier
from harness.common import HTML, String, cooked

EXPLANATION = (
    'CrossHair renders real dtml-in templates over sequences of symbolic length (0..N) whose per-element payloads x_i are symbolic '
    'ints (so runs of equal x arise symbolically); the body hands the namespace to a recorder that reads every documented '
    'sequence variable; an independent oracle computed from the list predicts all of them (item/key split, index, number, even, '
    'odd, letter, Letter, roman, Roman via an own table, start/end on the displayed window, length, first-x/last-x at run '
    'boundaries, sequence-var-x, prefix aliases), that element attributes/keys are visible unless no_push_item, that nothing '
    'stays bound after the end tag, and that the else body is rendered exactly for the empty sequence.')

ROMAN = ['', 'I', 'II', 'III', 'IV', 'V', 'VI', 'VII', 'VIII', 'IX', 'X', 'XI', 'XII']
FIXED = ['item', 'index', 'number', 'letter', 'Letter', 'roman', 'Roman', 'even', 'odd', 'start', 'end', 'length']
assert len(FIXED) == 12


class O:
    def __init__(self, x, i):
        self.x, self.i = x, i


def pick(k, n):
    lo, hi = 0, n
    while hi - lo > 1:
        mid = (lo + hi) // 2
        if k < mid:
            hi = mid
        else:
            lo = mid
    return lo


def gen(items):
    for it in items:
        yield it


class Rec:
    def __init__(self, prefix=None, with_x=True, with_key=False):
        self.rows = []
        self.prefix, self.with_x, self.with_key = prefix, with_x, with_key

    def __call__(self, md):
        row = {}
        for k in FIXED:
            row[k] = md['sequence-' + k]
            if self.prefix:
                row['p_' + k] = md[self.prefix + '_' + k]
        if self.with_key:
            row['key'] = md['sequence-key']
            if self.prefix:
                row['p_key'] = md[self.prefix + '_key']
        if self.with_x:
            row['first-x'] = md['first-x']
            row['last-x'] = md['last-x']
            row['var-x'] = md['sequence-var-x']
        try:
            row['x'] = md['x']
        except KeyError:
            row['x'] = 'UNBOUND'
        self.rows.append(row)
        return ''


def truthy(a, b):
    return bool(a) == bool(b)


def check_rows(rows, items, xs, first, last, n, prefix=None, keys=None, pushed=True, outer_x='outer'):
    """rows recorded for displayed indexes first..last (0-based, inclusive) of a sequence of n items"""
    if len(rows) != (last - first + 1 if n else 0):
        return False
    for r, i in zip(rows, range(first, last + 1)):
        want_item = items[i]
        if r['item'] is not want_item and r['item'] != want_item:
            return False
        if r['index'] != i or r['number'] != i + 1:
            return False
        if not truthy(r['even'], i % 2 == 0) or not truthy(r['odd'], i % 2 == 1):
            return False
        if r['letter'] != 'abcdefghijkl'[i] or r['Letter'] != 'ABCDEFGHIJKL'[i]:
            return False
        if r['Roman'] != ROMAN[i + 1] or r['roman'] != ROMAN[i + 1].lower():
            return False
        if not truthy(r['start'], i == first) or not truthy(r['end'], i == last):
            return False
        if r['length'] != n:
            return False
        if keys is not None and r.get('key') != keys[i]:
            return False
        if prefix:
            for k in FIXED + (['key'] if keys is not None else []):
                a, b = r[k], r['p_' + k]      # Rec stores the alias values under the generic 'p_' + name
                if a is not b and a != b:
                    return False
        if xs is not None:
            if 'var-x' in r:
                if r['var-x'] != xs[i]:
                    return False
                if not truthy(r['first-x'], i == first or xs[i] != xs[i - 1]):
                    # "first-x ... exactly at the boundaries of runs of equal x": the first displayed element starts a run
                    return False
                if not truthy(r['last-x'], i == last or xs[i] != xs[i + 1]):
                    return False
            if pushed:
                if r['x'] != xs[i]:
                    return False
            elif r['x'] != outer_x:
                return False
    return True


AFTER = '|<dtml-var x missing=UNBOUND>|<dtml-var sequence-item missing=UNBOUND>|<dtml-var sequence-index missing=UNBOUND>|<dtml-var p_item missing=UNBOUND>'
T_MAP = cooked('<dtml-in seq mapping><dtml-call "rec(_)">.<dtml-else>EMPTY</dtml-in>' + AFTER)
T_OBJ = cooked('<dtml-in seq prefix=p><dtml-call "rec(_)">.<dtml-else>EMPTY</dtml-in>' + AFTER)
T_OBJ_NOPUSH = cooked('<dtml-in seq no_push_item><dtml-call "rec(_)">.<dtml-else>EMPTY</dtml-in>' + AFTER)
T_TUP = cooked('<dtml-in seq prefix=p><dtml-call "rec(_)">.<dtml-else>EMPTY</dtml-in>' + AFTER)
T_PLAIN = cooked('<dtml-in seq><dtml-call "rec(_)">.<dtml-else>EMPTY</dtml-in>' + AFTER)
T_OBJ_US = cooked('<dtml-in seq prefix=row_v><dtml-call "rec(_)">.<dtml-else>EMPTY</dtml-in>' + AFTER)
T_TUP_MAP = cooked('<dtml-in seq mapping prefix=p><dtml-call "rec(_)">.<dtml-else>EMPTY</dtml-in>' + AFTER)
T_TUP_MAP_B = cooked('<dtml-in seq mapping size=9 prefix=p><dtml-call "rec(_)">.<dtml-else>EMPTY</dtml-in>' + AFTER)
T_BATCH = cooked('<dtml-in seq mapping start=st size=sz prefix=p><dtml-call "rec(_)">.<dtml-else>EMPTY</dtml-in>' + AFTER)
T_SSI = cooked('<!--#in seq mapping--><!--#call "rec(_)"-->.<!--#else-->EMPTY<!--#/in-->' + AFTER)
T_EPFS = cooked('%(in seq mapping)[%(call expr="rec(_)")!.%(else)[EMPTY%(in seq)]|%(x missing=UNBOUND)s|%(sequence-item missing=UNBOUND)s|%(sequence-index missing=UNBOUND)s|%(p_item missing=UNBOUND)s', String)
TAIL = '|UNBOUND|UNBOUND|UNBOUND|UNBOUND'


def container(kind, items):
    if kind == 0:
        return list(items)
    if kind == 1:
        return tuple(items)
    if kind == 2:
        return gen(items)
    return SequenceFromIter(iter(items))


def make_mapping(nmax, t):
    def ob(n: int, a: int, b: int, c: int, d: int, e: int, f: int, ck: int) -> bool:
        k = pick(n, nmax + 1)
        vals = [a, b, c, d, e, f]
        xs = [vals[i % 6] for i in range(k)]          # beyond six elements the payloads repeat
        items = [{'x': xs[i], 'i': i} for i in range(k)]
        rec = Rec()
        out = t(seq=container(pick(ck, 4), items), rec=rec)
        if k == 0:
            return out == 'EMPTY' + TAIL and rec.rows == []
        return out == '.' * k + TAIL and check_rows(rec.rows, items, xs, 0, k - 1, k)
    ob.__name__ = 'ob_mapping_%d' % nmax
    return ob


def make_obj(nmax, nopush=False):
    def ob(n: int, a: int, b: int, c: int, d: int, e: int, ck: int) -> bool:
        k = pick(n, nmax + 1)
        vals = [a, b, c, d, e]
        xs = [vals[i % 5] for i in range(k)]          # beyond five elements the payloads repeat
        items = [O(xs[i], i) for i in range(k)]
        rec = Rec(prefix=None if nopush else 'p')
        out = (T_OBJ_NOPUSH if nopush else T_OBJ)(seq=container(pick(ck, 4), items), rec=rec, x='outer')
        tail = '|outer|UNBOUND|UNBOUND|UNBOUND'
        if k == 0:
            return out == 'EMPTY' + tail and rec.rows == []
        return out == '.' * k + tail and check_rows(rec.rows, items, xs, 0, k - 1, k, prefix=None if nopush else 'p', pushed=not nopush)
    ob.__name__ = 'ob_obj_%d%s' % (nmax, '_nopush' if nopush else '')
    return ob


def make_tuples(nmax):
    """items list: 2-tuples are split into sequence-key and sequence-item; the item's attributes are visible"""
    def ob(n: int, a: int, b: int, c: int, d: int, ka: int, kb: int, kc: int, kd: int) -> bool:
        k = pick(n, nmax + 1)
        xs = [a, b, c, d][:k]
        keys = [ka, kb, kc, kd][:k]
        objs = [O(xs[i], i) for i in range(k)]
        seq = [(keys[i], objs[i]) for i in range(k)]
        rec = Rec(prefix='p', with_key=True)
        out = T_TUP(seq=seq, rec=rec)
        if k == 0:
            return out == 'EMPTY' + TAIL
        return out == '.' * k + TAIL and check_rows(rec.rows, objs, xs, 0, k - 1, k, prefix='p', keys=keys)
    ob.__name__ = 'ob_tuples_%d' % nmax
    return ob


def make_obj_prefix_us(nmax):
    """a prefix that itself contains an underscore"""
    def ob(n: int, a: int, b: int, c: int) -> bool:
        k = pick(n, nmax + 1)
        xs = [a, b, c][:k]
        items = [O(xs[i], i) for i in range(k)]
        rec = Rec(prefix='row_v')
        out = T_OBJ_US(seq=items, rec=rec)
        if k == 0:
            return out == 'EMPTY' + TAIL
        return out == '.' * k + TAIL and check_rows(rec.rows, items, xs, 0, k - 1, k, prefix='row_v')
    return ob


def make_tuples_mapping(nmax, batch):
    """items list whose items are mappings, with the mapping option: keys split off, sequence-var-x / first-x / last-x
    read the ITEM's x"""
    def ob(n: int, a: int, b: int, c: int, ka: int, kb: int, kc: int) -> bool:
        k = pick(n, nmax + 1)
        xs = [a, b, c][:k]
        keys = [ka, kb, kc][:k]
        maps = [{'x': xs[i], 'i': i} for i in range(k)]
        seq = [(keys[i], maps[i]) for i in range(k)]
        rec = Rec(prefix='p', with_key=True)
        out = (T_TUP_MAP_B if batch else T_TUP_MAP)(seq=seq, rec=rec)
        if k == 0:
            return out == 'EMPTY' + TAIL
        return out == '.' * k + TAIL and check_rows(rec.rows, maps, xs, 0, k - 1, k, prefix='p', keys=keys)
    return ob


def make_plain(nmax):
    """plain ints and strings as elements: nothing is pushed, sequence-item is the element"""
    def ob(n: int, a: int, b: int, c: int, d: int, strs: bool) -> bool:
        k = pick(n, nmax + 1)
        vals = [a, b, c, d][:k]
        items = ['s%d' % i for i in range(k)] if strs else vals
        rec = Rec(with_x=False)
        out = T_PLAIN(seq=list(items), rec=rec, x='outer')
        tail = '|outer|UNBOUND|UNBOUND|UNBOUND'
        if k == 0:
            return out == 'EMPTY' + tail
        return out == '.' * k + tail and check_rows(rec.rows, items, None, 0, k - 1, k)
    ob.__name__ = 'ob_plain_%d' % nmax
    return ob


def make_batch(nmax):
    """batched: sequence-start/-end mark the first/last DISPLAYED element, index/number count in the whole sequence"""
    def ob(n: int, st: int, sz: int, a: int, b: int, c: int, d: int, e: int, f: int) -> bool:
        k = pick(n, nmax) + 1
        s0 = pick(st, k) + 1
        z = pick(sz, 3) + 1
        xs = [a, b, c, d, e, f][:k]
        items = [{'x': xs[i], 'i': i} for i in range(k)]
        rec = Rec(prefix='p')
        out = T_BATCH(seq=items, rec=rec, st=s0, sz=z)
        first = s0 - 1
        last = min(k, s0 + z - 1) - 1
        return out == '.' * (last - first + 1) + TAIL and check_rows(rec.rows, items, xs, first, last, k, prefix='p')
    ob.__name__ = 'ob_batch_%d' % nmax
    return ob


def make_syntax(t, nmax):
    def ob(n: int, a: int, b: int, c: int) -> bool:
        k = pick(n, nmax + 1)
        xs = [a, b, c][:k]
        items = [{'x': xs[i], 'i': i} for i in range(k)]
        rec = Rec()
        out = t(seq=items, rec=rec)
        if k == 0:
            return out == 'EMPTY' + TAIL
        return out == '.' * k + TAIL and check_rows(rec.rows, items, xs, 0, k - 1, k)
    return ob


T_NEST = cooked('<dtml-in outer mapping><dtml-try><dtml-in inner mapping><dtml-call "f(j)"></dtml-in><dtml-except>C</dtml-try><dtml-call "rec(_)">.</dtml-in>' + AFTER)


class Boom(Exception):
    pass


def ob_nested_fault(k: int, a: int, b: int) -> bool:
    """an inner loop whose body raises for its k-th element (caught by a surrounding dtml-try) leaves none of its bindings
    behind: the outer loop still sees its own sequence variables and element"""
    xs = [a, b]
    outer = [{'x': xs[i], 'i': i} for i in range(2)]
    inner = [{'j': 0, 'x': 100}, {'j': 1, 'x': 101}, {'j': 2, 'x': 102}]

    def f(j):
        if j + 1 == k:
            raise Boom('fault at inner element %d' % j)
        return ''
    rec = Rec()
    out = T_NEST(outer=outer, inner=inner, f=f, rec=rec)
    exp = ('C.' if 1 <= k <= 3 else '.') * 2 + TAIL
    return out == exp and check_rows(rec.rows, outer, xs, 0, 1, 2)


def explain(obname, args):
    return ''


OBLIGATIONS = []
N = tier(6, 8)
OBLIGATIONS.append(Ob('mapping', make_mapping(N, T_MAP), ['0 <= n <= %d' % N, '0 <= ck < 4'], timeout=tier(280, 1200),
                      data='length n 0..%d, payloads x_i: unbounded ints' % N, selectors='mapping elements; container kind list/tuple/generator/SequenceFromIter',
                      outside='sequences longer than %d; sequence-letter beyond index 25 and roman beyond 12 elements' % N))
OBLIGATIONS.append(Ob('objects_prefix', make_obj(tier(5, 6)), ['0 <= n <= %d' % tier(5, 6), '0 <= ck < 4'], timeout=tier(280, 1200),
                      data='length, payloads (unbounded ints)', selectors='object elements (attributes visible), prefix=p aliases'))
OBLIGATIONS.append(Ob('objects_no_push_item', make_obj(tier(3, 4), True), ['0 <= n <= %d' % tier(3, 4), '0 <= ck < 4'], timeout=tier(280, 1200),
                      data='length, payloads', selectors='no_push_item: element attributes are not visible, outer x shows through'))
OBLIGATIONS.append(Ob('tuples', make_tuples(tier(3, 4)), ['0 <= n <= %d' % tier(3, 4)], timeout=tier(280, 1200),
                      data='length, payloads and keys (unbounded ints)', selectors='2-tuples (key, object), prefix=p'))
OBLIGATIONS.append(Ob('plain', make_plain(tier(3, 4)), ['0 <= n <= %d' % tier(3, 4)], timeout=tier(280, 1200), data='length, int elements; ints or strings bit', selectors='plain int / str elements'))
OBLIGATIONS.append(Ob('batch', make_batch(tier(5, 6)), ['0 <= n < %d' % tier(5, 6), '0 <= st < %d' % tier(5, 6), '0 <= sz < 3'], timeout=tier(280, 1200),
                      data='length 1..%d, start 1..n, size 1..3, payloads' % tier(5, 6), selectors='batched renderer (start/size), prefix=p'))
OBLIGATIONS.append(Ob('ssi_syntax', make_syntax(T_SSI, 3), ['0 <= n <= 3'], timeout=tier(200, 900), data='length, payloads', selectors='<!--#in--> syntax'))
OBLIGATIONS.append(Ob('epfs_syntax', make_syntax(T_EPFS, 3), ['0 <= n <= 3'], timeout=tier(200, 900), data='length, payloads', selectors='%(in)[ syntax'))
OBLIGATIONS.append(Ob('nested_fault', ob_nested_fault, ['0 <= k <= 4'], timeout=tier(200, 900), data='position k of the inner element whose body raises (0/4 = none), outer payloads',
                      selectors='inner dtml-in inside dtml-try inside an outer dtml-in'))
OBLIGATIONS.append(Ob('prefix_with_underscore', make_obj_prefix_us(3), ['0 <= n <= 3'], timeout=tier(250, 900), data='length, payloads', selectors='prefix=row_v (underscore inside the prefix): all aliases'))
OBLIGATIONS.append(Ob('tuples_of_mappings', make_tuples_mapping(3, False), ['0 <= n <= 3'], timeout=tier(250, 900), data='length, payloads, keys', selectors='(key, mapping) pairs with the mapping option, prefix=p'))
OBLIGATIONS.append(Ob('tuples_of_mappings_batch', make_tuples_mapping(3, True), ['0 <= n <= 3'], timeout=tier(250, 900), data='length, payloads, keys', selectors='(key, mapping) pairs, mapping, batched'))


# ---------------------------------------------------------------- wave 3
T_MAP_NOPUSH = cooked('<dtml-in seq mapping no_push_item><dtml-call "rec(_)">.<dtml-else>EMPTY</dtml-in>' + AFTER)
T_MAP_NOPUSH_B = cooked('<dtml-in seq mapping no_push_item size=9><dtml-call "rec(_)">.<dtml-else>EMPTY</dtml-in>' + AFTER)
T_TUP_NOPUSH_B = cooked('<dtml-in seq no_push_item start=1 size=9><dtml-call "rec(_)">.<dtml-else>EMPTY</dtml-in>' + AFTER)


def make_mapping_nopush(nmax, batch):
    """mapping + no_push_item: the element's keys are NOT visible in the body (the outer x shows through), in both renderers"""
    def ob(n: int, a: int, b: int, c: int) -> bool:
        k = pick(n, nmax + 1)
        xs = [a, b, c][:k]
        items = [{'x': xs[i], 'i': i} for i in range(k)]
        rec = Rec()
        out = (T_MAP_NOPUSH_B if batch else T_MAP_NOPUSH)(seq=items, rec=rec, x='outer')
        tail = '|outer|UNBOUND|UNBOUND|UNBOUND'
        if k == 0:
            return out == 'EMPTY' + tail
        return out == '.' * k + tail and check_rows(rec.rows, items, xs, 0, k - 1, k, pushed=False)
    ob.__name__ = 'ob_mapping_nopush_%s' % ('batch' if batch else 'plain')
    return ob


def make_tuples_nopush_batch(nmax):
    def ob(n: int, a: int, b: int, c: int) -> bool:
        k = pick(n, nmax + 1)
        xs = [a, b, c][:k]
        objs = [O(xs[i], i) for i in range(k)]
        seq = [('k%d' % i, objs[i]) for i in range(k)]
        rec = Rec(with_key=True)
        out = T_TUP_NOPUSH_B(seq=seq, rec=rec, x='outer')
        tail = '|outer|UNBOUND|UNBOUND|UNBOUND'
        if k == 0:
            return out == 'EMPTY' + tail
        return out == '.' * k + tail and check_rows(rec.rows, objs, xs, 0, k - 1, k, keys=['k%d' % i for i in range(k)], pushed=False)
    return ob


OBLIGATIONS.append(Ob('mapping_no_push_item', make_mapping_nopush(3, False), ['0 <= n <= 3'], timeout=tier(250, 900), data='length, payloads', selectors='mapping no_push_item (unbatched)'))
OBLIGATIONS.append(Ob('mapping_no_push_item_batch', make_mapping_nopush(3, True), ['0 <= n <= 3'], timeout=tier(250, 900), data='length, payloads', selectors='mapping no_push_item size=9 (batched renderer)'))
OBLIGATIONS.append(Ob('tuples_no_push_item_batch', make_tuples_nopush_batch(3), ['0 <= n <= 3'], timeout=tier(250, 900), data='length, payloads', selectors='(key, object) pairs, no_push_item start=1 size=9'))

T_PLAIN_B = cooked('<dtml-in seq size=9><dtml-call "rec(_)">.<dtml-else>EMPTY</dtml-in>' + AFTER)


def make_plain_none(nmax, batch):
    """elements may be None (or other false values): every element is still visited once, in order, whatever container delivers it"""
    def ob(n: int, ka: int, kb: int, kc: int, ck: int) -> bool:
        k = pick(n, nmax + 1)
        pool = [None, 0, '', 5]
        items = [pool[pick(x, 4)] for x in [ka, kb, kc][:k]]
        rec = Rec(with_x=False)
        out = (T_PLAIN_B if batch else T_PLAIN)(seq=container(pick(ck, 4), items), rec=rec, x='outer')
        tail = '|outer|UNBOUND|UNBOUND|UNBOUND'
        if k == 0:
            return out == 'EMPTY' + tail
        return out == '.' * k + tail and check_rows(rec.rows, items, None, 0, k - 1, k)
    ob.__name__ = 'ob_plain_none_%s' % ('batch' if batch else 'plain')
    return ob


for _b in (False, True):
    OBLIGATIONS.append(Ob('plain_false_elements' + ('_batch' if _b else ''), make_plain_none(3, _b), ['0 <= n <= 3', '0 <= ka < 4', '0 <= kb < 4', '0 <= kc < 4', '0 <= ck < 4'],
                          timeout=tier(250, 900), data='-', selectors='up to 3 elements each selected from None / 0 / "" / 5, container kind list / tuple / generator / SequenceFromIter'
                          + (', size=9' if _b else '')))

ROMAN_BIG = [(1000, 'M'), (900, 'CM'), (500, 'D'), (400, 'CD'), (100, 'C'), (90, 'XC'), (50, 'L'), (40, 'XL'), (10, 'X'), (9, 'IX'), (5, 'V'), (4, 'IV'), (1, 'I')]


def ref_roman(n):
    out = ''
    for v, s in ROMAN_BIG:
        while n >= v:
            out += s
            n -= v
    return out


T_POS = cooked('<dtml-in seq start=st size=2><dtml-call "rec(_)"></dtml-in>')
SEQ60 = list(range(1000, 1060))


def ob_high_positions(st: int) -> bool:
    """positions far into the sequence: index/number/even/odd/roman/Roman and letter/Letter (documented for the first 26) of a window
    starting at a symbolic position of a 60-element sequence"""
    s0 = pick(st, 59) + 1
    rows = []

    def rec(md):
        rows.append([md['sequence-' + k] for k in ('index', 'number', 'even', 'odd', 'roman', 'Roman', 'item', 'start', 'end', 'letter', 'Letter')])
        return ''
    from crosshair.tracers import NoTracing
    with NoTracing():
        T_POS(seq=SEQ60, st=s0, rec=rec)
        if len(rows) != 2:
            return False
        for j, r in enumerate(rows):
            i = s0 - 1 + j
            if r[0] != i or r[1] != i + 1 or bool(r[2]) != (i % 2 == 0) or bool(r[3]) != (i % 2 == 1):
                return False
            if r[5] != ref_roman(i + 1) or r[4] != ref_roman(i + 1).lower() or r[6] != 1000 + i:
                return False
            if bool(r[7]) != (j == 0) or bool(r[8]) != (j == 1):
                return False
            if i < 26 and (r[9] != 'abcdefghijklmnopqrstuvwxyz'[i] or r[10] != 'ABCDEFGHIJKLMNOPQRSTUVWXYZ'[i]):
                return False
        return True


OBLIGATIONS.append(Ob('high_positions', ob_high_positions, ['0 <= st < 59'], timeout=tier(150, 400), data='-',
                      selectors='window of 2 at a selected start 1..59 of a 60-element sequence: position variables against an independent roman-numeral oracle',
                      outside='positions beyond 60; letters beyond the 26th element', stubs='render runs untraced once the start is fixed on the path'))


# ---------------------------------------------------------------- skip_unauthorized: start/end flags refer to DISPLAYED elements
from zExceptions import Unauthorized       # noqa: E402


class GuardedHTML(HTML):
    def guarded_getattr(self, inst, name, *default):
        return getattr(inst, name)

    def guarded_getitem(self, ob, index):
        v = ob[index]
        if getattr(v, 'forbidden', False):
            raise Unauthorized('item %r' % (index,))
        return v


class GI:
    def __init__(self, i, forbidden):
        self.i, self.forbidden = i, forbidden


SRC_SKIP = '<dtml-in seq skip_unauthorized%s><dtml-var i>:<dtml-if sequence-start>S</dtml-if><dtml-if sequence-end>E</dtml-if>:<dtml-var sequence-index>,</dtml-in>'
T_SKIP = {False: cooked(SRC_SKIP % '', GuardedHTML), True: cooked(SRC_SKIP % ' size=9', GuardedHTML)}


def make_skip_flags(batch):
    def ob(f0: bool, f1: bool, f2: bool) -> bool:
        """with skip_unauthorized the refused elements are not displayed; sequence-start / sequence-end are true ONLY on the first /
        last displayed element (the statement's wording: an implication - when an edge element is refused the flag may stay false),
        and exactly there when nothing is refused; sequence-index stays the position in the whole sequence"""
        fs = [f0, f1, f2]
        out = T_SKIP[batch](seq=[GI(i, fs[i]) for i in range(3)])
        shown = [i for i in range(3) if not fs[i]]
        rows = [r for r in out.split(',') if r]
        if len(rows) != len(shown):
            return False
        for r, i in zip(rows, shown):
            a, flags, idx = r.split(':')
            if a != str(i) or idx != str(i):
                return False
            if 'S' in flags and i != shown[0]:
                return False
            if 'E' in flags and i != shown[-1]:
                return False
            if len(shown) == 3 and (('S' in flags) != (i == 0) or ('E' in flags) != (i == 2)):
                return False
        return True
    ob.__name__ = 'ob_skip_flags_%s' % ('batch' if batch else 'plain')
    return ob


for _b in (False, True):
    OBLIGATIONS.append(Ob('skip_unauthorized_flags' + ('_batch' if _b else ''), make_skip_flags(_b), [], timeout=tier(150, 400),
                          data='which of 3 elements the item guard refuses (3 symbolic bits)', selectors='dtml-in skip_unauthorized%s on a template class supplying guards' % (' size=9' if _b else ''),
                          outside='more than 3 elements'))


# ---------------------------------------------------------------- wave 4
T_NEST_ELSE = cooked('<dtml-let lv=one><dtml-in outer mapping prefix=g><dtml-in empty><dtml-var sequence-item><dtml-else>e</dtml-in><dtml-in gen><dtml-else>f</dtml-in>'
                     '<dtml-call "rec(_)">.</dtml-in></dtml-let>|<dtml-var lv missing=UNBOUND>' + AFTER.replace('p_item', 'g_item'))


def ob_nested_empty_else(n: int, a: int, b: int, c: int) -> bool:
    """an inner dtml-in over an empty sequence (given by name; also an exhausted generator) renders its else body and leaves nothing behind:
    the outer loop still sees its own variables in every iteration, and after the outer loop and an enclosing let everything is unbound"""
    k = pick(n, 4)
    xs = [a, b, c][:k]
    items = [{'x': xs[i], 'i': i} for i in range(k)]
    rec = Rec(prefix='g')
    out = T_NEST_ELSE(outer=items, empty=[], gen=gen([]), rec=rec, one=1)
    if k == 0:
        return out == '|UNBOUND' + TAIL
    return out == 'ef.' * k + '|UNBOUND' + TAIL and check_rows(rec.rows, items, xs, 0, k - 1, k, prefix='g')


OBLIGATIONS.append(Ob('nested_empty_else', ob_nested_empty_else, ['0 <= n <= 3'], timeout=tier(250, 900), data='outer length 0..3, payloads',
                      selectors='inner dtml-in over an empty list / exhausted generator with an else body, inside an outer dtml-in inside a let'))


class MapLike:
    """hand-written mapping-like container (keys/get/__getitem__/__len__/__iter__), not registered as collections.abc.Mapping:
    dtml-in iterates its keys, like a dict"""

    def __init__(self, keys):
        self._k = list(keys)

    def keys(self):
        return list(self._k)

    def get(self, k, d=None):
        return 'v' if k in self._k else d

    def __getitem__(self, k):
        for x in self._k:
            if x == k:
                return 'v'
        raise KeyError(k)

    def __len__(self):
        return len(self._k)

    def __iter__(self):
        return iter(self._k)


def make_maplike(batch):
    def ob(n: int, ka: int, kb: int, kc: int, dictlike: bool) -> bool:
        k = pick(n, 4)
        pool = ['s0', 'k1', 7, 's3']
        items = []
        for x in [ka, kb, kc][:k]:
            v = pool[pick(x, 4)]
            if v not in items:
                items.append(v)
        k = len(items)
        seq = dict((v, 'v') for v in items) if dictlike else MapLike(items)
        rec = Rec(with_x=False)
        out = (T_PLAIN_B if batch else T_PLAIN)(seq=seq, rec=rec, x='outer')
        tail = '|outer|UNBOUND|UNBOUND|UNBOUND'
        if k == 0:
            return out == 'EMPTY' + tail
        return out == '.' * k + tail and check_rows(rec.rows, items, None, 0, k - 1, k)
    ob.__name__ = 'ob_maplike_%s' % ('batch' if batch else 'plain')
    return ob


for _b in (False, True):
    OBLIGATIONS.append(Ob('mapping_like_containers' + ('_batch' if _b else ''), make_maplike(_b), ['0 <= n <= 3', '0 <= ka < 4', '0 <= kb < 4', '0 <= kc < 4'], timeout=tier(250, 900),
                          data='-', selectors='dtml-in over a dict / a hand-written mapping-like container with up to 3 distinct keys from a pool (strings and an int): iterated over its keys' + (', size=9' if _b else '')))

T_RECUR = cooked('<dtml-in seq mapping><dtml-call "rec(tag, _)"><dtml-if "kids is not None and v == at"><dtml-call "T(None, _, seq=kids, tag=tag + 1, kids=None)"></dtml-if></dtml-in>')


def ob_reentrant_unbatched(n: int, at: int, kn: int) -> bool:
    """a recursive template: while the outer (unbatched) loop is at element `at`, the same template - the same compiled tag - loops over a
    child sequence; afterwards the outer loop's sequence variables are its own again for the remaining elements"""
    nn, kk = pick(n, 3) + 1, pick(kn, 3) + 1
    a = pick(at, nn)
    rows = []

    def rec(tag, md):
        rows.append((tag, md['v'], md['sequence-index'], md['sequence-number'], bool(md['sequence-start']), bool(md['sequence-end']), md['sequence-length']))
        return ''
    T_RECUR(T=T_RECUR, seq=[{'v': i} for i in range(nn)], kids=[{'v': 100 + j} for j in range(kk)], at=a, tag=0, rec=rec)
    exp = []
    for i in range(nn):
        exp.append((0, i, i, i + 1, i == 0, i == nn - 1, nn))
        if i == a:
            exp += [(1, 100 + j, j, j + 1, j == 0, j == kk - 1, kk) for j in range(kk)]
    return rows == exp


OBLIGATIONS.append(Ob('reentrant_unbatched', ob_reentrant_unbatched, ['0 <= n < 3', '0 <= at < 3', '0 <= kn < 3'], timeout=tier(250, 900), data='outer length 1..3, recursing position, child length 1..3',
                      selectors='template that calls itself from inside its own unbatched dtml-in (one compiled tag, two sequences)'))
