"""C07 - the three surface syntaxes of a template compile and render identically (engine E1)."""
import re

from crosshair.tracers import NoTracing

from DocumentTemplate.DT_Util import Eval, ParseError
from vlib.ob import Ob, tier
from harness.common import HTML, String, ref_escape

EXPLANATION = (
    'Abstract templates (every tag, with attributes, continuation tags, nesting, end-tag spellings, blank/newline/quoting '
    'variants) are printed in the three surface syntaxes; CrossHair chooses the template, a symbolic literal character, symbolic '
    'attribute-value characters and symbolic namespace values. The three compiled block programs are normalised structurally '
    '(tag class, argument dict, expression sources, modifiers, nested sections) and must be equal; all three must agree on '
    'ParseError-ness; rendering must give equal text, equal exception type and an equal log of namespace calls. Entity forms are '
    'compared with their dtml-var equivalents for every pair of modifiers.')
ASSUMES = ['EPFS C-format suffixes other than "s" have no HTML counterpart except fmt= and are not compared; the tree tag is not compared']


# ------------------------------------------------------------------ printers
# node: ('t', text) | ('leaf', name, args) | ('block', name, args, [(cont name, cont args, nodes)...])   (first section: cont name None)
def fill(nodes, sp):
    """{sp} inside argument strings stands for the blank variant under test"""
    out = []
    for n in nodes:
        if n[0] in ('t', 'ent'):
            out.append(n)
        elif n[0] == 'leaf':
            out.append((n[0], n[1], n[2].replace('{sp}', sp)))
        else:
            out.append((n[0], n[1], n[2].replace('{sp}', sp), [(cn, ca.replace('{sp}', sp), fill(body, sp)) for cn, ca, body in n[3]]))
    return out


def p_dtml(nodes, opt):
    out = []
    sp = opt.get('sp', ' ')
    nodes = fill(nodes, sp)
    for n in nodes:
        if n[0] == 't':
            out.append(n[1])
        elif n[0] == 'ent':
            out.append('&dtml%s-%s;' % (''.join('.' + m for m in n[2]), n[1]) if n[2] else '&dtml-%s;' % n[1])
        elif n[0] == 'leaf':
            out.append('<dtml-%s%s%s>' % (n[1], sp if n[2] else '', n[2]))
        else:
            _, name, args, secs = n
            out.append('<dtml-%s%s%s>' % (name, sp if args else '', args))
            for cn, ca, body in secs:
                if cn is not None:
                    out.append('<dtml-%s%s%s>' % (cn, sp if ca else '', ca))
                out.append(p_dtml(body, opt))
            if opt.get('endfull') and args:
                out.append('</dtml-%s %s>' % (name, args))          # the end tag repeats the whole argument string (ignored by the compiler)
            else:
                out.append('</dtml-%s%s>' % (name, (' ' + args.split()[0]) if opt.get('endargs') and args and '"' not in args.split()[0] and '=' not in args.split()[0] else ''))
    return ''.join(out)


def p_ssi(nodes, opt):
    out = []
    sp = opt.get('sp', ' ')
    nodes = fill(nodes, sp)
    end = opt.get('end', '/')
    for n in nodes:
        if n[0] == 't':
            out.append(n[1])
        elif n[0] == 'ent':
            out.append('<!--#var %s%s-->' % (n[1], ''.join(' ' + m for m in (n[2] or ['html_quote']))))
        elif n[0] == 'leaf':
            out.append('<!--#%s%s%s-->' % (n[1], sp if n[2] else '', n[2]))
        else:
            _, name, args, secs = n
            out.append('<!--#%s%s%s-->' % (name, sp if args else '', args))
            for cn, ca, body in secs:
                if cn is not None:
                    out.append('<!--#%s%s%s-->' % (cn, sp if ca else '', ca))
                out.append(p_ssi(body, opt))
            out.append('<!--#%s%s%s-->' % (end, name, (' ' + args) if opt.get('endfull') and args else ''))
    return ''.join(out)


def p_epfs(nodes, opt):
    out = []
    sp = opt.get('sp', ' ')
    nodes = fill(nodes, sp)
    for n in nodes:
        if n[0] == 't':
            out.append(n[1])
        elif n[0] == 'ent':
            out.append('%%(%s%s)s' % (n[1], ''.join(' ' + m for m in (n[2] or ['html_quote']))))
        elif n[0] == 'leaf':
            if n[1] == 'var':
                a = n[2]
                if a[:1] == '"' or a.startswith('expr=') or a.startswith('name='):
                    out.append('%%(var%s%s)s' % (sp, a))
                else:
                    out.append('%%(%s)s' % a)
            else:
                out.append('%%(%s%s%s)!' % (n[1], sp if n[2] else '', n[2]))
        else:
            _, name, args, secs = n
            out.append('%%(%s%s%s)[' % (name, sp if args else '', args))
            for cn, ca, body in secs:
                if cn is not None:
                    out.append('%%(%s%s%s)[' % (cn, sp if ca else '', ca))
                out.append(p_epfs(body, opt))
            out.append('%%(%s%s)]' % (name, (' ' + args) if opt.get('endfull') and args else ''))
    return ''.join(out)


# ------------------------------------------------------------------ structural normalisation of compiled programs
SKIP = {'encoding', 'start_name_re'}


def norm(x, depth=0):
    if depth > 12:
        return '...'
    if isinstance(x, str):
        return ('T', x)
    if isinstance(x, (int, float, bool, bytes, type(None))):
        return x
    if isinstance(x, (list, tuple)):
        return [type(x).__name__] + [norm(e, depth + 1) for e in x]
    if isinstance(x, dict):
        return {k: norm(v, depth + 1) for k, v in sorted(x.items())}
    if isinstance(x, Eval):
        return ('Eval', x.expr)
    if hasattr(x, '__self__') and hasattr(x, '__func__'):
        return ('method', x.__func__.__name__, norm(x.__self__, depth + 1))
    if isinstance(x, re.Pattern):
        return ('re', x.pattern)
    mod = getattr(type(x), '__module__', '')
    if mod.startswith('DocumentTemplate') and hasattr(x, '__dict__'):
        return (type(x).__name__, {k: norm(v, depth + 1) for k, v in sorted(vars(x).items()) if k not in SKIP and not k.startswith('_v_')})
    if callable(x):
        return ('callable', getattr(x, '__name__', type(x).__name__))
    return ('obj', type(x).__name__)


def compile3(nodes, opt):
    """-> three outcomes: ('ok', normalised blocks, template) | ('ParseError',) | ('other', type name)"""
    res = []
    for cls, pr in ((HTML, p_dtml), (HTML, p_ssi), (String, p_epfs)):
        src = pr(nodes, opt)
        t = cls(src)
        try:
            t.cook()
            res.append(('ok', norm(t._v_blocks), t, src))
        except ParseError:
            res.append(('ParseError', None, None, src))
        except SyntaxError:
            res.append(('SyntaxError', None, None, src))
    return res


class Logged:
    def __init__(self, log, name, val):
        self.log, self.name, self.val = log, name, val

    def __call__(self, *a):
        self.log.append(self.name)
        return self.val


def render3(res, make_ns):
    outs = []
    for r in res:
        if r[0] != 'ok':
            outs.append((r[0],))
            continue
        log = []
        ns = make_ns(log)
        try:
            o = ('ok', r[2](**ns), tuple(log))
        except Exception as e:
            o = ('exc', type(e).__name__, tuple(log))
        outs.append(o)
    return outs


def agree(nodes, opt, make_ns):
    res = compile3(nodes, opt)
    kinds = [r[0] for r in res]
    if kinds[0] != kinds[1] or kinds[1] != kinds[2]:
        LAST['info'] = 'compile outcomes differ: %r for sources %r' % (kinds, [r[3] for r in res])
        return False
    if kinds[0] == 'ok':
        if res[0][1] != res[1][1] or res[1][1] != res[2][1]:
            LAST['info'] = 'compiled programs differ for sources %r' % ([r[3] for r in res],)
            return False
    outs = render3(res, make_ns)
    if outs[0] != outs[1] or outs[1] != outs[2]:
        LAST['info'] = 'renderings differ: %r for sources %r' % (outs, [r[3] for r in res])
        return False
    return True


LAST = {}


def pick(k, n):
    lo, hi = 0, n
    while hi - lo > 1:
        mid = (lo + hi) // 2
        if k < mid:
            hi = mid
        else:
            lo = mid
    return lo


def T(s):
    return ('t', s)


def L(name, args=''):
    return ('leaf', name, args)


def B(name, args, *secs):
    return ('block', name, args, list(secs))


def E(name, *mods):
    """entity reference in the dtml variant (&dtml.m1.m2-name; / &dtml-name;), equivalent var tag in the other two"""
    return ('ent', name, list(mods))


def S(nodes, cont=None, cargs=''):
    return (cont, cargs, nodes)


# templates: function(ch, av) -> nodes;  ch = symbolic literal character, av = symbolic attribute value text
def templates(ch, av):
    return [
        [T('a' + ch), L('var', 'x'), T(ch + 'b')],
        [L('var', 'x null="%s" upper' % av), T(ch)],
        [L('var', 'x fmt=collection-length'), L('var', 's size=2 etc="%s"' % av)],
        [L('var', '"n+1"'), T(ch), L('var', 'expr="n*2" fmt="%03d"')],
        [L('var', 'name=x html_quote'), L('var', 'missingname missing="%s"' % av)],
        [L('call', 'f'), T(ch), L('call', '"g(n)"'), L('call', 'expr="g(1)"')],
        [B('if', 'c', S([T('T' + ch)]), S([T('F')], 'else'))],
        [B('if', 'c', S([L('var', 'x')]), S([T(ch)], 'elif', '"n > 1"'), S([T('E')], 'else'))],
        [B('if', 'expr="n == 2"', S([T(ch)])), B('unless', 'c', S([T('U'), L('var', 'x')]))],
        [B('unless', '"n"', S([T(ch)]))],
        [B('in', 's', S([L('var', 'sequence-item'), T(ch)]), S([T('none')], 'else'))],
        [B('in', 's size=2 start=n orphan=0 prefix=p', S([L('var', 'p_index'), T(ch)]))],
        [B('in', 'ms mapping sort=k reverse', S([L('var', 'k'), T(',')]))],
        [B('in', '"s" no_push_item', S([T(ch)]))],
        [B('in', 'ms mapping sort_expr="sk"', S([L('var', 'k')])), T(ch)],
        [B('with', 'w mapping', S([L('var', 'q'), T(ch)]))],
        [B('with', '"o" only', S([L('var', 'q missing="%s"' % av)]))],
        [B('let', 'a=x b="n+1"', S([L('var', 'a'), T(ch), L('var', 'b')]))],
        [B('try', '', S([L('var', '"1/n"'), T(ch)]), S([T('Z')], 'except', 'ZeroDivisionError'), S([T('X')], 'except'), S([T('ok')], 'else'))],
        [B('try', '', S([L('call', 'f'), T(ch)]), S([L('call', 'g')], 'finally'))],
        [B('try', '', S([B('raise', 'KeyError', S([T('m' + ch)]))]), S([L('var', 'error_type'), T(':'), L('var', 'error_value')], 'except', 'KeyError'))],
        [B('raise', '"ValueError"', S([T(ch)]))],
        [T(ch), L('return', 'x'), T('never')],
        [B('if', 'c', S([L('return', '"n+1"')])), T(ch)],
        [B('comment', '', S([T(ch), L('var', 'undefinedname')])), T('after')],
        [B('in', 's', S([B('if', 'c', S([B('with', 'w mapping', S([L('var', 'q'), T(ch)]))]), S([T('e')], 'else'))]))],
        [B('if', 'c', S([T('\n' + ch)]), S([T(' \n')], 'else')), T('\n' + ch)],
        [B('in', 'ms{sp}mapping', S([L('var', 'k'), T(ch)]), S([T('none')], 'else', 'ms'))],
        [B('in', 'es{sp}mapping{sp}size=2', S([L('var', 'k')]), S([T('none' + ch)], 'else', 'es'))],
        [B('if', 'c', S([T('T' + ch)]), S([T('F')], 'else', 'c'))],
        [B('if', 'c{sp}', S([T('T')]), S([T(ch)], 'elif', 'd'), S([T('F')], 'else', 'c'))],
        [L('var', 'x{sp}upper{sp}null="%s"' % av), L('var', 'x{sp}fmt="%s%%s"' % av)],
        [B('if', 'c', S([T('y')])), E('x', 'url_quote'), T(ch), B('in', 's', S([T('i')])), E('x'), E('x', 'upper', 'spacify')],
        [E('x', 'url_quote'), B('if', 'c', S([E('x', 'lower'), T(ch)]), S([E('x')], 'else')), E('x', 'sql_quote')],
        [B('with', 'w mapping', S([T(ch)])), E('x', 'html_quote', 'newline_to_br'), B('try', '', S([T('t')]), S([T('f')], 'finally')), E('x', 'thousands_commas')],
        [B('if', 'expr="n > 1"', S([T('G' + ch)]), S([T('L')], 'else')), B('unless', '"n > 0 and n < 3"', S([T(ch)])), B('in', 'expr="s[1:]"', S([L('var', 'sequence-item')]))],
        [B('with', 'expr="w" mapping', S([B('if', '"n >= 2"', S([L('var', 'q'), T(ch)]))])), B('let', 'a="n > 1" b=x', S([L('var', 'a'), L('var', 'b')]))],
        # literal text that merely looks like the beginning of an entity / tag, in front of real tags (the same text in all three syntaxes)
        [T('q?id=1&dtml-lang='), L('var', 'x html_quote'), T(';k' + ch), B('if', 'c', S([T('&dtml.foo bar '), L('var', 'x'), T('; ')])), T('R&dtml-D'), L('call', 'f'), T(';')],
        [T('a <dtml b> </dtml> <!-- # --> %% ( '), L('var', 'x'), T(ch + ' <!--x '), B('in', 's', S([T('&dtml- '), L('var', 'sequence-item'), T(';')])), T('-->')],
        # variables that are NAMED like tags
        [L('var', 'var'), T(ch), L('var', 'in'), L('var', 'if'), L('var', 'call'), L('var', 'else'), L('var', 'end'), L('var', 'elif'), L('var', 'try')],
        [B('in', 'in', S([L('var', 'sequence-item')])), B('if', 'if', S([T('y' + ch)])), B('with', 'with mapping', S([L('var', 'q')])), L('call', 'call'), B('unless', 'unless', S([T('u')]))],
        [B('let', 'var=var let=n', S([L('var', 'var'), T(ch), L('var', 'let')])), B('if', 'var', S([L('var', 'var')]), S([T('e')], 'else'))],
        # malformed: all three must reject
        [B('if', 'c', S([T(ch)]), S([T('a')], 'else'), S([T('b')], 'else'))],
        [L('var', 'x bogus=1'), T(ch)],
        [B('in', 's orphan=2', S([T(ch)]))],
        [L('var', 'x y z')],
        [B('try', '', S([T(ch)]), S([T('f')], 'finally'), S([T('e')], 'except'))],
        [L('var', 'expr="n +"')],
        [L('var', '"n +"')],
    ]


NT = len(templates('x', 'y'))


class Obj:
    q = 'Q'


def make_ns_factory(n, c, xval):
    def make_ns(log):
        ns = dict(x=xval, n=n, c=c, s=['i0', 'i1', 'i2'], ms=[{'k': 2}, {'k': 1}], es=[], d=0, sk='k', w={'q': 'wq'}, o=Obj(),
                  f=Logged(log, 'f', ''), g=Logged(log, 'g', ''))
        ns.update({'var': 'Vv', 'in': ['I1', 'I2'], 'if': n, 'call': Logged(log, 'call', ''), 'else': 'El', 'end': 'En', 'elif': 'Ei', 'try': 'Tr',
                   'with': {'q': 'withq'}, 'unless': c, 'let': 'Le'})
        return ns
    return make_ns


AV_ALPHA = [' ', 'a<', '&%', "-1\t", 'é=', ">'"]          # attribute-value texts legal in all three syntaxes
CH_POOL = ['a', ' ', '\n', 'é', '\x00', "'", '=', '-', '\t', ')', ']', '[', '!', '(', '\u2003', ',']


NCH, NAV, NSP = tier(8, 16), tier(3, 6), tier(2, 4)


def make_tpl(k):
    """compile + render agreement; everything is fixed on the path by selectors, cook and render run untraced"""
    def ob(kc: int, a1: int, n: int, c: bool, o1: int, o2: int) -> bool:
        ch = CH_POOL[pick(kc, NCH)]
        av = AV_ALPHA[pick(a1, NAV)]
        oo = pick(o2, 3)
        opt = {'sp': [' ', '\n', '  ', ' \t'][pick(o1, NSP)], 'end': ['/', 'end', '/'][oo], 'endargs': oo == 1, 'endfull': oo == 2}
        nn = pick(n, 3)
        cc = bool(c)
        with NoTracing():
            nodes = templates(ch, av)[k]
            return agree(nodes, opt, make_ns_factory(nn, cc, 'X<' + ch))
    ob.__name__ = 'ob_tpl_%d' % k
    return ob


PRECOOKED = {}
with NoTracing():
    for _k in range(NT):
        _nodes = templates('~', 'v')[_k]
        PRECOOKED[_k] = compile3(_nodes, {})


def make_render(k):
    """the three pre-compiled variants rendered on SYMBOLIC namespace values: text, exception type and call log agree"""
    res = PRECOOKED[k]

    def ob(x: str, n: int, c: bool) -> bool:
        outs = render3(res, make_ns_factory(pick(n, 4), c, x))
        if outs[0] != outs[1] or outs[1] != outs[2]:
            LAST['info'] = 'renderings differ: %r' % (outs,)
            return False
        return True
    ob.__name__ = 'ob_render_%d' % k
    return ob


# ------------------------------------------------------------------ entity equivalences
MODS = ['html_quote', 'url_quote', 'url_quote_plus', 'url_unquote', 'url_unquote_plus', 'newline_to_br', 'lower', 'upper', 'capitalize',
        'spacify', 'thousands_commas', 'sql_quote']
POOL = ['a_b', "it's", '<b>\n', '1234567.891', 'A b_c', '%3C+x', ' x ', '', 'a&b\r\n', 'é_É', 'q%20r']
NAMES = ['n', 'sequence-item', 'a_b', 'x.y', 'n-1']


def ob_entity_plain(s: str, kn: int) -> bool:
    """&dtml-name; == <dtml-var name html_quote> (programs and renderings)"""
    name = NAMES[pick(kn, len(NAMES))]
    t1, t2 = HTML('&dtml-%s;' % name), HTML('<dtml-var %s html_quote>' % name)
    t1.cook()
    t2.cook()
    if norm(t1._v_blocks) != norm(t2._v_blocks):
        return False
    return t1(**{name: s}) == t2(**{name: s}) == ref_escape(s)


def ob_entity_mods(k1: int, k2: int, j: int, kn: int) -> bool:
    """&dtml.m1.m2-name; == <dtml-var name m1 m2>"""
    m1, m2 = MODS[pick(k1, len(MODS))], MODS[pick(k2, len(MODS))]
    s = POOL[pick(j, len(POOL))]
    name = NAMES[pick(kn, len(NAMES))]
    with NoTracing():
        if m1 == m2:
            e, v = '&dtml.%s-%s;' % (m1, name), '<dtml-var %s %s>' % (name, m1)
        else:
            e, v = '&dtml.%s.%s-%s;' % (m1, m2, name), '<dtml-var %s %s %s>' % (name, m1, m2)
        t1, t2, t3 = HTML(e), HTML(v), String('%%(%s %s %s)s' % (name, m1, m2 if m2 != m1 else ''))
        for t in (t1, t2, t3):
            t.cook()
        if norm(t1._v_blocks) != norm(t2._v_blocks):
            LAST['info'] = 'programs differ: %r vs %r' % (e, v)
            return False
        r1, r2, r3 = t1(**{name: s}), t2(**{name: s}), t3(**{name: s})
        if not (r1 == r2 == r3):
            LAST['info'] = '%r -> %r ; %r -> %r ; epfs -> %r' % (e, r1, v, r2, r3)
            return False
        return True


def explain(obname, args):
    return LAST.get('info', '')


OBLIGATIONS = []
for _k in range(NT):
    OBLIGATIONS.append(Ob('tpl_%02d' % _k, make_tpl(_k), ['0 <= kc < %d' % NCH, '0 <= a1 < %d' % NAV, '0 <= n < 3', '0 <= o1 < %d' % NSP, '0 <= o2 < 3'],
                          timeout=tier(280, 1200), path_timeout=60,
                          data='-', selectors='abstract template #%d printed as <dtml->, <!--#--> (/tag or endtag) and %%(..): literal character from %d class representatives, attribute-value text from %r, %d blank variants, n, c' % (_k, NCH, AV_ALPHA[:NAV], NSP),
                          outside='attribute values outside the pool; EPFS format suffixes other than s', stubs='cook and render run untraced once everything is fixed on the path'))
for _k in range(NT):
    if PRECOOKED[_k][0][0] != 'ok':
        continue
    if any(w in PRECOOKED[_k][0][3] for w in ('upper', 'lower', 'fmt="', 'url_quote', 'thousands_commas')):
        continue        # case mapping / %-formatting of a symbolic str makes CrossHair realise it value by value; covered by tpl_* pools
    OBLIGATIONS.append(Ob('render_%02d' % _k, make_render(_k), ['len(x) <= 2', '0 <= n <= 3'], timeout=tier(250, 900),
                          data='namespace values: x any str (len <= 2), int n 0..3, bool c (symbolic, flow through the three compiled programs)',
                          selectors='abstract template #%d, three syntaxes compiled beforehand' % _k, outside='x longer than 2 characters'))
OBLIGATIONS.append(Ob('entity_plain', ob_entity_plain, ['len(s) <= 2', '0 <= kn < %d' % len(NAMES)], timeout=tier(250, 900), data='value s any str len <= 2', selectors='&dtml-name; for names %r' % NAMES))
OBLIGATIONS.append(Ob('entity_mods', ob_entity_mods, ['0 <= k1 < 12', '0 <= k2 < 12', '0 <= j < %d' % len(POOL), '0 <= kn < %d' % len(NAMES)], timeout=tier(280, 1500), path_timeout=60,
                      data='-', selectors='every ordered pair of the 12 modifiers x %d pool values x %d names (untraced per path)' % (len(POOL), len(NAMES)),
                      stubs='runs untraced once modifiers, value and name are fixed on the path'))
