"""C17 - rendering is repeatable and side-effect free; templates survive persistence (engine E1, symbolic histories)."""
import copy
import os
import pickle
import tempfile

from crosshair.tracers import NoTracing

from DocumentTemplate import File, HTMLFile
from vlib.ob import Ob, tier
from harness.common import HTML, String

EXPLANATION = (
    'CrossHair explores operation histories o_1..o_L over one template object - render with namespace A, render with namespace '
    'B, pickle round trip, deep copy, munge to another source, re-cook - chosen by symbolic selectors, with symbolic data in the '
    'namespaces (ints that decide sort orders, batch windows, truth values, per-render sort_expr/reverse_expr choices). After '
    'every history the template must render both namespaces exactly like a freshly constructed template of the current source, '
    'the caller\'s mappings and sequences and the template defaults must be unchanged, and pickled state must not contain '
    'compiled (_v_) data. File-based templates: the pickled state is the file name; a restored template renders what is in the '
    'file at that time.')

SRCS = [
    ('<dtml-in seq mapping sort_expr="sk" reverse_expr="rv"><dtml-var i>,</dtml-in>|<dtml-if c>[<dtml-var c>]</dtml-if>|'
     '<dtml-let z="q+1"><dtml-var z></dtml-let>|<dtml-in seq mapping size=sz start=st><dtml-var i></dtml-in>|<dtml-var d>|'
     '<dtml-in lst reverse><dtml-var sequence-item></dtml-in>|<dtml-in seq mapping sort=k/cmpf><dtml-var i></dtml-in>|'
     '<dtml-if "_.has_key(\'opt\') and opt">[<dtml-var opt>]</dtml-if><dtml-var "_.has_key(\'opt\') and opt or q">'),
    ('<dtml-in seq mapping sort=k><dtml-var i>;</dtml-in>|<dtml-with w mapping><dtml-var q></dtml-with>|'
     '<dtml-try><dtml-var "10/q"><dtml-except ZeroDivisionError>E</dtml-try>|<dtml-var d>|<dtml-in dl><dtml-var sequence-item></dtml-in>|'
     '<dtml-unless c>U</dtml-unless><dtml-in seq mapping sort_expr="sk" size=5><dtml-var i></dtml-in>|'
     '<dtml-in "_.has_key(\'opt\') and [opt] or []"><dtml-var sequence-item></dtml-in><dtml-var opt missing="-">'),
]
DEFAULTS = {'d': 'dflt', 'dl': [3, 1, 2]}


def fresh(j, defaults='std'):
    with NoTracing():
        if defaults == 'std':
            d = copy.deepcopy(DEFAULTS)
        elif defaults == 'empty':
            d = {}
        else:
            d = {'d': 'other', 'dl': [9]}
        t = HTML(SRCS[j], d)
    return t


def cmp_up(a, b):
    return (a > b) - (a < b)


def cmp_down(a, b):
    return (a < b) - (a > b)


def make_ns(a, b, usej, rv, c, q, st, sz, down):
    return {'seq': [{'k': a, 'j': 0, 'i': 0}, {'k': 0, 'j': b, 'i': 1}, {'k': 1, 'j': 1, 'i': 2}],
            'sk': 'j' if usej else 'k', 'rv': rv, 'c': c, 'q': q, 'st': st, 'sz': sz, 'lst': [1, 2, 3],
            'w': {'q': q}, 'cmpf': cmp_down if down else cmp_up}


def snapshot(ns):
    return copy.deepcopy({k: v for k, v in ns.items() if k != 'cmpf'})


def same(ns, snap):
    return {k: v for k, v in ns.items() if k != 'cmpf'} == snap


def pick(k, n):
    lo, hi = 0, n
    while hi - lo > 1:
        mid = (lo + hi) // 2
        if k < mid:
            hi = mid
        else:
            lo = mid
    return lo


def render(t, ns):
    try:
        return ('ok', t(**ns))
    except Exception as e:
        return ('exc', type(e).__name__)


NOPS = 8


CUR = {'defaults': 'std'}


def apply_op(op, t, j, nsA, nsB):
    """-> (template, current source index, ok)"""
    if op == 0:
        snap = snapshot(nsA)
        r = render(t, nsA)
        return t, j, same(nsA, snap) and r == render(fresh(j, CUR['defaults']), nsA)
    if op == 1:
        snap = snapshot(nsB)
        r = render(t, nsB)
        return t, j, same(nsB, snap) and r == render(fresh(j, CUR['defaults']), nsB)
    if op == 2:
        with NoTracing():
            data = pickle.dumps(t)
            state = t.__getstate__()
            t2 = pickle.loads(data)
        for key in state:
            if key[:3] == '_v_':
                return t2, j, False
        return t2, j, True
    if op == 3:
        with NoTracing():
            t2 = copy.deepcopy(t)
        return t2, j, True
    if op == 4:
        with NoTracing():
            t.munge(SRCS[1 - j])
        return t, 1 - j, True
    if op == 5:
        with NoTracing():
            t.cook()
        return t, j, True
    if op == 6:
        with NoTracing():
            t.munge(SRCS[j], {})                 # re-edit with an EMPTY mapping: defaults are cleared
        return t, j, 'empty'
    with NoTracing():
        t.munge(None, {'d': 'other', 'dl': [9]})     # re-edit the defaults only
    return t, j, 'other'


def run_history(ops, av, uA, uB, rA, dB):
    nsA = make_ns(av, 1, uA, rA, 1, 2, 1, 2, False)
    nsB = make_ns(2, av, uB, not rA, 0, 0, 2, 1, dB)
    # an OPTIONAL variable: defined in one of the two namespaces only (which one follows the data bits)
    (nsA if uA else nsB)['opt'] = 'o%d' % av
    j = 0
    t = fresh(j)
    CUR['defaults'] = 'std'
    gsnap = copy.deepcopy(t.globals)
    for op in ops:
        t, j, ok = apply_op(op, t, j, nsA, nsB)
        if not ok:
            return False
        if ok in ('empty', 'other'):
            CUR['defaults'] = ok
            gsnap = copy.deepcopy(fresh(j, ok).globals)
    # after the history: both namespaces render as on a freshly built template of the current source and defaults, twice
    for ns in (nsA, nsB, nsA):
        snap = snapshot(ns)
        if render(t, ns) != render(fresh(j, CUR['defaults']), ns) or not same(ns, snap):
            return False
    return t.globals == gsnap and DEFAULTS == {'d': 'dflt', 'dl': [3, 1, 2]}


def make_history(L, first=None):
    def ob(o1: int, o2: int, o3: int, o4: int, a: int, usejA: bool, usejB: bool, rvA: bool, downB: bool) -> bool:
        ops = ([first] if first is not None else [pick(o1, NOPS)]) + [pick(o, NOPS) for o in (o2, o3, o4)[:L - 1]]
        av = pick(a, 3) - 1
        uA, uB, rA, dB = bool(usejA), bool(usejB), bool(rvA), bool(downB)
        with NoTracing():
            return run_history(ops, av, uA, uB, rA, dB)
    ob.__name__ = 'ob_history_%d_%s' % (L, 'any' if first is None else 'f%d' % first)
    return ob


# ------------------------------------------------------------------ file-based templates
def ob_file_history(o1: int, o2: int, o3: int, html: bool) -> bool:
    """ops: 0 render, 1 pickle round trip, 2 deep copy, 3 rewrite the file.  The template always renders the file's
    current content (checked after the history); pickled state holds the file name, not the content"""
    ops = [pick(o, 4) for o in (o1, o2, o3)]
    with NoTracing():
        d = tempfile.mkdtemp(prefix='c17_')
        path = os.path.join(d, 't.dtml')
        try:
            version = 0

            def write():
                with open(path, 'w') as f:
                    f.write(('<dtml-var x>' if html else '%(x)s') + '|CONTENT-v%d' % version)
            write()
            t = (HTMLFile if html else File)(path)
            cooked_version = None            # a template reads its file when it is first used and keeps the compiled result
            for op in ops:
                if op == 0:
                    if cooked_version is None:
                        cooked_version = version
                    if t(x='X') != 'X|CONTENT-v%d' % cooked_version:
                        return False
                elif op == 1:
                    data = pickle.dumps(t)
                    if b'CONTENT-v' in data or path.encode() not in data:
                        return False
                    t = pickle.loads(data)
                    cooked_version = None    # compiled data is not part of the pickled state
                elif op == 2:
                    t = copy.deepcopy(t)
                    cooked_version = None
                    if 'CONTENT-v' in repr(t.__getstate__()):
                        return False
                else:
                    version += 1
                    write()
            # a template restored now renders what the file holds now
            t2 = pickle.loads(pickle.dumps(t))
            state = t.__getstate__()
            if state.get('raw') != path:
                return False
            return t2(x='Y') == 'Y|CONTENT-v%d' % version and copy.deepcopy(t)(x='Z') == 'Z|CONTENT-v%d' % version
        finally:
            try:
                os.unlink(path)
                os.rmdir(d)
            except OSError:
                pass


T_STRING_SRC = '%(in seq mapping sort_expr="sk")[%(i)s,%(in seq)]|%(if c)[%(c)s%(if c)]|%(d)s'


def ob_string_repeat(a: int, b: int, usej1: bool, usej2: bool, c: int) -> bool:
    """EPFS templates: same inputs -> same result regardless of renders in between"""
    with NoTracing():
        t = String(T_STRING_SRC, d='D')
        f = String(T_STRING_SRC, d='D')
    ns1 = {'seq': [{'k': a, 'j': 0, 'i': 0}, {'k': 0, 'j': b, 'i': 1}], 'sk': 'j' if usej1 else 'k', 'c': c}
    ns2 = {'seq': [{'k': b, 'j': a, 'i': 0}, {'k': 1, 'j': 1, 'i': 1}], 'sk': 'j' if usej2 else 'k', 'c': 0}
    r1 = t(**ns1)
    t(**ns2)
    return t(**ns1) == r1 and f(**ns1) == r1


def explain(obname, args):
    return ''


OBLIGATIONS = []
PRE = ['0 <= o%d < %d' % (i, NOPS) for i in (1, 2, 3, 4)] + ['0 <= a < 3']
L = tier(3, 4)
for _f in range(NOPS):
    OBLIGATIONS.append(Ob('history_L%d_first%d' % (L, _f), make_history(L, _f), PRE, timeout=tier(280, 1500), path_timeout=60,
                          data='data int a (decides sort orders), per-namespace sort key / reverse / comparison-function choices',
                          selectors='histories of %d operations (render A, render B, pickle, deepcopy, munge source, cook, munge with empty defaults, munge defaults only), first = %d' % (L, _f),
                          outside='histories longer than %d; ZODB persistence machinery' % L,
                          stubs='the whole history runs untraced once operations and data choices are fixed on the path (selector-style coverage; string_repeat keeps symbolic data)'))
OBLIGATIONS.append(Ob('file_history', ob_file_history, ['0 <= o1 < 4', '0 <= o2 < 4', '0 <= o3 < 4'], timeout=tier(200, 900),
                      data='-', selectors='File / HTMLFile: histories of 3 operations (render, pickle, deepcopy, rewrite file)', stubs='runs untraced; temporary file under the system temp dir, removed afterwards'))
OBLIGATIONS.append(Ob('string_repeat', ob_string_repeat, ['-1 <= c <= 1'], timeout=tier(250, 900), data='ints a, b, sort key choices', selectors='EPFS template rendered A, B, A'))


# ---------------------------------------------------------------- wave 3: several template OBJECTS with the same source text
TWIN_SRC = 'a<dtml-in seq><dtml-var sequence-item></dtml-in>|<dtml-let y=b><dtml-var y html_quote upper></dtml-let>|<dtml-var b>'
TWIN_ENC = ['utf-8', 'latin-1', 'cp1252', 'utf-16-le']
TWIN_TEXT = '\xe9\u20ac<'.replace('\u20ac', '')          # text encodable in all of them except the euro sign: keep it latin-1 safe


def ob_twin_templates(e1: int, e2: int, o1: int, o2: int, o3: int) -> bool:
    """two template objects built from byte-identical source with (possibly) different encodings, used in a selected order of
    operations (render object i / pickle round trip of object i): every rendering decodes bytes with the encoding of the template
    that is rendering - whatever other templates with the same text were compiled before"""
    encs = [TWIN_ENC[pick(e, len(TWIN_ENC))] for e in (e1, e2)]
    ops = [pick(o, 4) for o in (o1, o2, o3)]
    with NoTracing():
        ts = [HTML(TWIN_SRC, encoding=enc) for enc in encs]
        text = '\xe9<'
        for op in ops + [0, 1]:
            i = op % 2
            if op >= 2:
                ts[i] = pickle.loads(pickle.dumps(ts[i]))
                continue
            b = text.encode(encs[i])
            out = ts[i](seq=[b, 'x'], b=b)
            exp = 'a' + text + 'x|' + text.replace('<', '&lt;').upper() + '|' + text
            if out != exp:
                return False
        return True


OBLIGATIONS.append(Ob('twin_templates', ob_twin_templates, ['0 <= e%d < %d' % (i, len(TWIN_ENC)) for i in (1, 2)] + ['0 <= o%d < 4' % i for i in (1, 2, 3)], timeout=tier(280, 900), path_timeout=60,
                      data='-', selectors='two HTML objects over one source text, encodings selected from %r, histories of 3 operations (render i / pickle round trip i) followed by rendering both' % TWIN_ENC,
                      stubs='runs untraced once the selectors are fixed on the path'))


# ---------------------------------------------------------------- dtml-tree never modifies the caller's branch lists
import TreeDisplay      # noqa: E402,F401


class TNode:
    def __init__(self, name, kids=()):
        self.name, self._kids = name, list(kids)

    def tpValues(self):
        return self._kids

    def tpId(self):
        return self.name

    def tpURL(self):
        return self.name


class TResp:
    def setCookie(self, *a, **k):
        pass


TREE_SRCS = ['<dtml-tree root sort=name><dtml-var name></dtml-tree>', '<dtml-tree root sort=name reverse><dtml-var name></dtml-tree>', '<dtml-tree root reverse><dtml-var name></dtml-tree>',
             '<dtml-tree root skip_unauthorized sort=name><dtml-var name></dtml-tree>', '<dtml-tree root><dtml-var name></dtml-tree>']


def ob_tree_leaves_input_alone(o1: int, o2: int, o3: int, k: int, tup: bool) -> bool:
    """rendering a tree (sort / reverse / skip_unauthorized, expand_all or not) leaves the lists returned by the nodes' branches method
    exactly as they were - same objects in the same order - and renders the same rows every time"""
    order = [[0, 1, 2], [0, 2, 1], [1, 0, 2], [1, 2, 0], [2, 0, 1], [2, 1, 0]][pick(o1, 6)]      # distinct names (tree sort compares nodes on ties)
    ki = pick(k, len(TREE_SRCS))
    tp = bool(tup)
    with NoTracing():
        names = ['c', 'a', 'b']
        kids = [TNode(names[i], [TNode(names[i] + '2'), TNode(names[i] + '1')]) for i in order]
        root = TNode('r', kids)
        if tp:
            root._kids = tuple(kids)
        before = list(root._kids)
        sub_before = [list(n._kids) for n in kids]
        t = HTML(TREE_SRCS[ki])
        outs = []
        for rnd in range(2):
            outs.append(t(root=root, URL='u', RESPONSE=TResp(), expand_all=1))
            if len(root._kids) != 3 or any(a is not b for a, b in zip(root._kids, before)):
                return False
            for n, sb in zip(kids, sub_before):
                if len(n._kids) != 2 or any(a is not b for a, b in zip(n._kids, sb)):
                    return False
        return outs[0] == outs[1]


OBLIGATIONS.append(Ob('tree_leaves_input_alone', ob_tree_leaves_input_alone, ['0 <= o1 < 6', 'o2 == 0', 'o3 == 0', '0 <= k < %d' % len(TREE_SRCS)], timeout=tier(200, 600), path_timeout=60,
                      data='-', selectors='dtml-tree templates %r over a root whose three children (each with two children) come in a selected order, list or tuple; rendered twice with expand_all' % TREE_SRCS,
                      stubs='runs untraced once the selectors are fixed on the path'))


# ---------------------------------------------------------------- wave 4: restored / copied templates are independent objects
def ob_restored_independent(o1: int, o2: int, o3: int, o4: int) -> bool:
    """templates WITHOUT defaults, restored from pickles / deep-copied / freshly built: setting a default or a variable on one of them
    (default(), var(), munge with a mapping) never shows in another one"""
    ops = [pick(o, 6) for o in (o1, o2, o3, o4)]
    with NoTracing():
        src = '<dtml-var greeting missing="-">|<dtml-var who missing="-">'
        ts = [pickle.loads(pickle.dumps(HTML(src))), copy.deepcopy(HTML(src)), HTML(src), pickle.loads(pickle.dumps(String('%(greeting missing="-")s|%(who missing="-")s')))]
        model = [dict() for _ in ts]
        for n, op in enumerate(ops):
            i = op % 4 if op < 4 else (n % 4)
            if op < 4:
                ts[i].default(greeting='Hello%d' % n) if n % 2 == 0 else ts[i].var(who='W%d' % n)
                if n % 2 == 0:
                    model[i]['greeting'] = 'Hello%d' % n
                else:
                    model[i]['who'] = 'W%d' % n
            elif op == 4:
                ts[i] = pickle.loads(pickle.dumps(ts[i]))
            else:
                ts[i] = copy.deepcopy(ts[i])
            for j, t in enumerate(ts):
                if t() != model[j].get('greeting', '-') + '|' + model[j].get('who', '-'):
                    return False
        return True


OBLIGATIONS.append(Ob('restored_templates_independent', ob_restored_independent, ['0 <= o%d < 6' % i for i in (1, 2, 3, 4)], timeout=tier(250, 900), path_timeout=60,
                      data='-', selectors='four templates without defaults (unpickled HTML, deep-copied HTML, fresh HTML, unpickled String); histories of 4 operations '
                      '(default()/var() on template i, pickle round trip, deep copy); all four rendered after every step', stubs='runs untraced once the selectors are fixed on the path'))


# ---------------------------------------------------------------- a rendering started while another rendering of the same object is in progress
SRC_REENT = ('<dtml-in seq mapping>[<dtml-var sequence-number>/<dtml-var sequence-length><dtml-if sequence-start>S</dtml-if><dtml-if sequence-end>E</dtml-if>'
             '<dtml-if "kids is not None and v == at">(<dtml-var "T(None, _, seq=kids, kids=None)">)</dtml-if>]</dtml-in>'
             '|<dtml-in seq mapping size=2 start=1><dtml-var sequence-number><dtml-if "kids is not None and v == at">(<dtml-var "T(None, _, seq=kids, kids=None)">)</dtml-if></dtml-in>')


def ob_reentrant_render(n: int, at: int, kn: int) -> bool:
    """the nested rendering is produced by THE SAME template object or by a second object built from the same source: the results are
    equal (nothing of the inner rendering survives on the compiled tags of the outer one)"""
    nn, kk = pick(n, 3) + 1, pick(kn, 3) + 1
    a = pick(at, nn)
    with NoTracing():
        t1, t2 = HTML(SRC_REENT), HTML(SRC_REENT)
        seq = [{'v': i} for i in range(nn)]
        kids = [{'v': 100 + j} for j in range(kk)]
        same = t1(T=t1, seq=seq, kids=kids, at=a)
        other = t1(T=t2, seq=seq, kids=kids, at=a)
        again = t1(T=t1, seq=seq, kids=kids, at=a)
        return same == other and again == same


OBLIGATIONS.append(Ob('reentrant_render', ob_reentrant_render, ['0 <= n < 3', '0 <= at < 3', '0 <= kn < 3'], timeout=tier(200, 600), path_timeout=60, data='-',
                      selectors='outer length 1..3, position whose element renders children, child length 1..3; nested rendering by the same object vs by a twin object (unbatched and batched loops)',
                      stubs='runs untraced once the selectors are fixed on the path'))


# ---------------------------------------------------------------- wave 5
def ob_call_inputs_do_not_stick(o1: int, o2: int, o3: int, withvar: bool) -> bool:
    """what one call passes (keyword arguments, mapping, client) belongs to that call: later calls with fewer inputs fall back to the
    template's own variables / defaults, the template's _vars and globals stay as they were, and its pickled state never contains them"""
    ops = [pick(o, 5) for o in (o1, o2, o3)]
    wv = bool(withvar)
    with NoTracing():
        t = HTML('<dtml-var name>|<dtml-var shout missing="-">|<dtml-var d>', d='dflt', name='world')
        if wv:
            t.var(shout='quiet')
        vars0, glob0 = copy.deepcopy(t._vars), copy.deepcopy(t.globals)
        base_shout = 'quiet' if wv else '-'
        for n, op in enumerate(ops + [0]):
            if op == 0:
                out, exp = t(), 'world|%s|dflt' % base_shout
            elif op == 1:
                out, exp = t(name='Bob%d' % n, shout='HEY'), 'Bob%d|HEY|dflt' % n
            elif op == 2:
                out, exp = t(None, {'name': 'Eve', 'd': 'md'}), 'Eve|%s|md' % base_shout
            elif op == 3:
                c = XC()
                c.name, c.shout = 'Cli', 'cs'
                out, exp = t(c), 'Cli|%s|dflt' % ('quiet' if wv else 'cs')
            else:
                t = pickle.loads(pickle.dumps(t))
                continue
            if out != exp or t._vars != vars0 or t.globals != glob0:
                return False
            if b'Bob' in pickle.dumps(t) or b'HEY' in pickle.dumps(t):
                return False
        return True


class XC:
    pass


OBLIGATIONS.append(Ob('call_inputs_do_not_stick', ob_call_inputs_do_not_stick, ['0 <= o%d < 5' % i for i in (1, 2, 3)], timeout=tier(200, 600), path_timeout=60, data='-',
                      selectors='histories of 3 operations over one template with defaults (and optionally var() values): render bare / with keywords / with a mapping / with a client / pickle round trip',
                      stubs='runs untraced once the selectors are fixed on the path'))


def ob_failed_first_use(kind: int, n: int) -> bool:
    """a first use that FAILS (syntax error in the source, file missing) leaves the template as it was: every later use fails the same
    way, and once the cause is repaired (file created) it renders like a new template"""
    k = pick(kind, 4)
    reps = pick(n, 3) + 1
    with NoTracing():
        if k < 2:
            t = (HTML('a<dtml-if x>b') if k == 0 else String('a%(if x)[b'))
            fresh_exc = None
            try:
                (HTML('a<dtml-if x>b') if k == 0 else String('a%(if x)[b'))(x=1)
            except Exception as e:           # noqa: B902
                fresh_exc = type(e)
            for _ in range(reps + 1):
                try:
                    t(x=1)
                    return False
                except Exception as e:       # noqa: B902
                    if type(e) is not fresh_exc:
                        return False
            return True
        d = tempfile.mkdtemp(prefix='c17f_')
        path = os.path.join(d, 't.dtml')
        try:
            t = (HTMLFile if k == 2 else File)(path)
            for _ in range(reps):
                try:
                    t(x='X')
                    return False
                except (OSError, IOError):
                    pass
            with open(path, 'w') as f:
                f.write('<dtml-var x>|late' if k == 2 else '%(x)s|late')
            return t(x='X') == 'X|late' and pickle.loads(pickle.dumps(t))(x='Y') == 'Y|late'
        finally:
            try:
                if os.path.exists(path):
                    os.unlink(path)
                os.rmdir(d)
            except OSError:
                pass


OBLIGATIONS.append(Ob('failed_first_use', ob_failed_first_use, ['0 <= kind < 4', '0 <= n < 3'], timeout=tier(150, 400), path_timeout=60, data='-',
                      selectors='HTML / String source with a syntax error used 2-4 times; HTMLFile / File whose file does not exist for the first 1-3 uses and is created afterwards',
                      stubs='runs untraced; temporary file under the system temp dir, removed afterwards'))
