#!/bin/sh
# run the given checks (default: all in MANIFEST) sequentially at the given tier; summary at the end
TIER="${TIER:-quick}"
cd /verif
IDS="$@"
[ -z "$IDS" ] && IDS=$(python3 -c "import json; print(' '.join(c['property_id'] for c in json.load(open('MANIFEST.json'))['checks']))")
for id in $IDS; do
  s=$(date +%s); ./vcheck $id --tier $TIER > /tmp/verif_run_$id.log 2>&1; rc=$?
  echo "$id rc=$rc $(( $(date +%s) - s ))s $(grep -E '^\[C[0-9]+\] tier=' /tmp/verif_run_$id.log)"
  grep -E "^VIOLATION|^KNOWN-FINDING|inconclusive:|harness error" /tmp/verif_run_$id.log | cut -c1-200
done
