#!/bin/sh
# pinned suite (94) + the uncollected test modules; both must stay green after every fix:/hook commit
cd /repo || exit 2
/venv/bin/python -m pytest -q -p no:cacheprovider 2>&1 | tail -2
/venv/bin/python -m pytest -q -p no:cacheprovider src/DocumentTemplate/tests/testDTML.py src/DocumentTemplate/tests/testSecurity.py src/DocumentTemplate/tests/testDTMLUnicode.py src/DocumentTemplate/tests/testustr.py src/TreeDisplay/tests.py src/DocumentTemplate/sequence/tests 2>&1 | tail -2
