#!/bin/sh
# usage: tools/seedsanity.sh <scratch worktree> [seed dirs...]  -- for each seeded change: applies to /repo HEAD? pinned tests pass? demo passes clean / fails patched?
WT="$1"; shift
[ $# -eq 0 ] && set -- /verif/seeded/*/
H=$(git -C /repo rev-parse HEAD)
for d in "$@"; do
  n=$(basename "$d")
  git -C "$WT" reset -q --hard; git -C "$WT" clean -fdq; git -C "$WT" checkout -q --detach "$H"
  c=$(cd "$WT" && PYTHONPATH="$WT/src" /venv/bin/python "$d/demo.py" >/dev/null 2>&1 && echo PASS || echo FAIL)
  if git -C "$WT" apply "$d/patch.diff" 2>/dev/null || git -C "$WT" apply --3way "$d/patch.diff" >/dev/null 2>&1; then a=applies; else a=NOAPPLY; fi
  t=$(cd "$WT" && PYTHONPATH="$WT/src" /venv/bin/python -m pytest -q -p no:cacheprovider 2>&1 | tail -1 | cut -c1-20)
  p=$(cd "$WT" && PYTHONPATH="$WT/src" /venv/bin/python "$d/demo.py" >/dev/null 2>&1 && echo PASS || echo FAIL)
  echo "$n clean=$c $a tests='$t' patched=$p"
done
git -C "$WT" reset -q --hard; git -C "$WT" clean -fdq
