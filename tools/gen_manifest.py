#!/usr/bin/env python3
"""Regenerate /verif/MANIFEST.json from the table below + the harness modules that exist."""
import json
import os

ROOT = os.path.dirname(os.path.dirname(os.path.abspath(__file__)))
NOTE = ("Bounded: every verdict holds only within the bounds written per obligation in the evidence file; trusted base: CPython 3.12, "
        "CrossHair 0.0.110's models of builtins (counterexamples are replayed in plain CPython before being reported; a wrong "
        "'confirmed' from an unfaithful model cannot be excluded), z3/cvc5, the harness oracles written from the property text.")
P = {
 'C01': ('E1', 'CrossHair symbolic execution of cook+render on symbolic source/literal text vs. character-level oracle', '4 C01'),
 'C02': ('E1', 'CrossHair symbolic execution of the real namespace stack and call protocol (symbolic definedness bits and values)', '4 C02'),
 'C03': ('E1', 'CrossHair symbolic execution of the real render path on a symbolic value string vs. independent escaping oracle', '4 C03'),
 'C04': ('E1', 'CrossHair: inductive taint invariant per pipeline stage + whole-render glue on symbolic tainted strings', '4 C04'),
 'C05': ('E1', 'CrossHair two-run non-interference (self-composition) over symbolic secrets and guard decisions', '4 C05'),
 'C06': ('E1+E4', 'CrossHair on cook() with symbolic source text + z3 search for exponential regex ambiguity on the live patterns', '4 C06'),
 'C07': ('E1', 'CrossHair: three printers of one abstract template, normalised block programs and renders compared', '4 C07'),
 'C08': ('E1', 'CrossHair with symbolic fault positions (k, k2) over namespace-stack snapshots', '4 C08'),
 'C09': ('E1', 'CrossHair over symbolic truth values/definedness with a call-log oracle', '4 C09'),
 'C10': ('E1', 'CrossHair over symbolic sequence contents/options vs. plain-Python oracle of sequence variables', '4 C10'),
 'C11': ('E2+E1', 'AST->SMT translation of opt/renderwb window arithmetic (z3, unbounded ints) + CrossHair on real batched renders', '4 C11'),
 'C12': ('E2+E1', 'AST->SMT touch-index analysis of opt/renderwb + CrossHair with counting iterators', '4 C12'),
 'C13': ('E1', 'CrossHair over symbolic keys vs. stable-sort oracle', '4 C13'),
 'C14': ('E1', 'CrossHair over symbolic raise/return decisions vs. reference interpreter of try/except/else/finally', '4 C14'),
 'C15': ('E1', 'CrossHair over symbolic values/sizes vs. pipeline oracle', '4 C15'),
 'C16': ('E2+E1', 'AST->SMT of statistics over Real and IEEE Float64 (z3/cvc5) + CrossHair on real renders', '4 C16'),
 'C17': ('E1', 'CrossHair over symbolic operation histories (render/pickle/copy/munge/cook)', '4 C17'),
 'C18': ('E3', 'SMT schedule synthesis over recorded shared-memory traces, replayed on real threads', '4 C18'),
 'C19': ('E1', 'CrossHair over symbolic text per alphabet class: bytes insert == text insert; ustr laws', '4 C19'),
 'C20': ('E1', 'CrossHair over symbolic lengths/click histories vs. set-of-expanded-paths model', '4 C20'),
}
checks, na = [], []
for pid, (eng, tech, ref) in sorted(P.items()):
    if os.path.exists(os.path.join(ROOT, 'harness', pid + '.py')):
        checks.append({
            'property_id': pid,
            'quick_cmd': './vcheck %s --tier quick' % pid,
            'thorough_cmd': './vcheck %s --tier thorough' % pid,
            'evidence_file': 'evidence/%s.json' % pid,
            'replay_cmd_template': './vcheck %s --replay {path}' % pid,
            'engine': eng,
            'level_claimed': {'category': 'other',
                              'text': 'Bounded symbolic verification of the real code: within the stated bounds the solver covers every '
                                      'value on every explored path (stronger than sampling inside the bound); nothing is claimed outside.',
                              'design_ref': 'DESIGN.md section ' + ref},
            'level_note': NOTE,
            'technique': tech,
        })
    else:
        na.append({'property_id': pid, 'reason': 'check not built yet in this revision (planned: %s); no claim is made' % tech})
m = {
 'version': 1,
 'setup_cmd': './setup.sh',
 'hooks': {'guard': 'DOCUMENTTEMPLATE_VERIF', 'enable': 'no hooks needed: symbolic inputs enter through the public API, faults through namespace stubs',
           'baseline_off_cmd': 'cd /repo && /venv/bin/python -m pytest -ra -q -p no:cacheprovider --timeout=900 --continue-on-collection-errors',
           'source_commits': [], 'add_only': True},
 'engines': [
   {'name': 'E1 crosshair', 'path': 'vlib/chworker.py', 'serves_properties': [p for p, v in P.items() if 'E1' in v[0]], 'kind_free_text': 'symbolic execution of the real Python functions (CrossHair 0.0.110, z3)'},
   {'name': 'E2 astsmt', 'path': 'vlib/astsmt.py', 'serves_properties': ['C11', 'C12', 'C16'], 'kind_free_text': 'Python AST -> SMT (z3 Int/Real, cvc5 Float64) regenerated from inspect.getsource each run'},
   {'name': 'E3 schedsmt', 'path': 'vlib/schedsmt.py', 'serves_properties': ['C18'], 'kind_free_text': 'SMT synthesis of thread schedules over recorded shared accesses, replayed on real threads'},
   {'name': 'E4 rxamb', 'path': 'vlib/rxamb.py', 'serves_properties': ['C06'], 'kind_free_text': 'z3 search for exponential-ambiguity witnesses in the live regex objects'},
 ],
 'checks': checks,
 'not_applicable': na,
 'notes': 'See DESIGN.md. Exit codes: 0 ok, 1 VIOLATION, 3 harness error. Known findings: known_findings.json.',
}
with open(os.path.join(ROOT, 'MANIFEST.json'), 'w') as f:
    json.dump(m, f, indent=1)
print('checks:', [c['property_id'] for c in checks])
