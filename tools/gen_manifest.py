#!/usr/bin/env python3
"""Regenerate /verif/MANIFEST.json from the table below + the harness modules that exist."""
import json
import os

ROOT = os.path.dirname(os.path.dirname(os.path.abspath(__file__)))
NOTE = ("Bounded: every verdict holds only within the bounds written per obligation in the evidence file; trusted base: CPython 3.12, "
        "CrossHair 0.0.110's models of builtins (counterexamples are replayed in plain CPython before being reported; a wrong "
        "'confirmed' from an unfaithful model cannot be excluded), z3/cvc5, the harness oracles written from the property text.")
P = {
 'C01': ('E1', 'CrossHair symbolic execution of cook+render: symbolic raw sources and symbolic code points in literal slots / after bogus openers / at composition seams vs. character-level oracle', '4 C01, 7.3'),
 'C02': ('E1', 'CrossHair symbolic execution of the real namespace stack and call protocol (symbolic definedness bits, stack contents, client shapes)', '4 C02'),
 'C03': ('E1', 'CrossHair symbolic execution of the real render path on a symbolic value string vs. independent escaping oracle; pools for non-string values', '4 C03'),
 'C04': ('E1', 'CrossHair: inductive taint invariant per pipeline stage (stage order read from the live modifiers list) + whole-render glue on symbolic tainted strings; selector-enumerated pools (untraced renders) for %-format templates, every str method as fmt=, fmt x C-conversion x modifier combinations', '4 C04, 7.6, 7.8'),
 'C05': ('E1', 'CrossHair two-run non-interference (self-composition) over symbolic secrets and guard decisions per access channel; explicit-oracle skip_unauthorized subsets', '4 C05, 7.3, 7.5'),
 'C06': ('E1+E4', 'CrossHair on cook() with symbolic source text / spliced code points / selector-enumerated token sequences and attribute lists vs. reference grammar recogniser with located-error check + deterministic compile-work counter over nesting depth + z3 search for exponential regex ambiguity on every live patterns', '4 C06, 7.3'),
 'C07': ('E1', 'CrossHair: three printers of one abstract template (selector-enumerated, untraced) with structural normalisation of the compiled programs; pre-compiled variants rendered on symbolic namespace values', '4 C07, 7.3'),
 'C08': ('E1', 'CrossHair with symbolic fault positions and kinds over namespace-stack snapshots (single faults traced, double faults by selectors), symbolic initial recursion level', '4 C08, 7.3'),
 'C09': ('E1', 'CrossHair over symbolic truth values/definedness/falsy kinds with a call-log oracle', '4 C09'),
 'C10': ('E1', 'CrossHair over symbolic sequence lengths and payloads vs. plain-Python oracle of every sequence variable', '4 C10'),
 'C11': ('E2+E1', 'AST->SMT translation of opt/renderwb window arithmetic (z3, unbounded ints) + CrossHair on real batched renders and next/previous walks', '4 C11'),
 'C12': ('E2+E1', 'AST->SMT touch-index analysis of opt/renderwb (lazy index semantics, unbounded ints) + CrossHair with counting iterators incl. unbounded ones', '4 C12, 7.3'),
 'C13': ('E1', 'CrossHair over symbolic keys of many types vs. stable insertion-sort oracle; fresh template rendered twice for per-render sort specs', '4 C13, 7.3'),
 'C14': ('E1', 'CrossHair over symbolic raise/return decisions vs. reference interpreter of try/except/else/finally', '4 C14'),
 'C15': ('E1', 'CrossHair over symbolic values/sizes vs. pipeline oracle (pairs of modifiers in both orders, truncation for every string); selector pools for url/case/thousands laws', '4 C15, 7.3'),
 'C16': ('E2+E1', 'AST->SMT of statistics over Real/Int (z3) and IEEE Float64 (cvc5 binary, z3 cross-check) + CrossHair on real renders of mixed items', '4 C16, 7.3'),
 'C17': ('E1', 'CrossHair-enumerated operation histories (render/pickle/copy/munge/cook, untraced bodies) vs. freshly built templates; file-based templates', '4 C17, 7.3'),
 'C18': ('E3', 'SMT schedule synthesis (z3) over recorded shared-memory traces with read-consistency constraints, replayed on real threads; benign races amplified deterministically (solver-made schedule on steady-state traces repeated on one object); solo results compared across fresh interpreters with opposite render orders', '4 C18, 7.3, 7.8, 7.9'),
 'C19': ('E1', 'CrossHair over symbolic text: bytes insert == text insert per path/form/encoding; ustr laws; pools for cp1252/utf-16', '4 C19'),
 'C20': ('E1', 'CrossHair-enumerated payload lengths (chunk layer with zlib stubbed) and click histories vs. set-of-expanded-paths model', '4 C20, 7.3'),
}
checks, na = [], []
for pid, (eng, tech, ref) in sorted(P.items()):
    if os.path.exists(os.path.join(ROOT, 'harness', pid + '.py')):
        checks.append({
            'property_id': pid,
            'quick_cmd': './vcheck %s --tier quick' % pid,
            'thorough_cmd': './vcheck %s --tier thorough' % pid,
            'evidence_file': 'evidence/%s.json' % pid,
            'replay_cmd_template': './vcheck %s --replay {path}' % pid,
            'engine': eng,
            'level_claimed': {'category': 'other',
                              'text': 'Bounded symbolic verification of the real code: within the stated bounds the solver covers every '
                                      'value on every explored path (stronger than sampling inside the bound); nothing is claimed outside. '
                                      'Obligations whose inputs are fixed by selectors (labelled as such in the evidence) are exhaustive '
                                      'enumerations by path forking, not reasoning over value classes.',
                              'design_ref': 'DESIGN.md section ' + ref},
            'level_note': NOTE,
            'technique': tech,
        })
    else:
        na.append({'property_id': pid, 'reason': 'check not built yet in this revision (planned: %s); no claim is made' % tech})
m = {
 'version': 1,
 'setup_cmd': './setup.sh',
 'hooks': {'guard': 'DOCUMENTTEMPLATE_VERIF', 'enable': 'no hooks needed: symbolic inputs enter through the public API, faults through namespace stubs',
           'baseline_off_cmd': 'cd /repo && /venv/bin/python -m pytest -ra -q -p no:cacheprovider --timeout=900 --continue-on-collection-errors',
           'source_commits': [], 'add_only': True},
 'engines': [
   {'name': 'E1 crosshair', 'path': 'vlib/chworker.py', 'serves_properties': [p for p, v in P.items() if 'E1' in v[0]], 'kind_free_text': 'symbolic execution of the real Python functions (CrossHair 0.0.110, z3)'},
   {'name': 'E2 astsmt', 'path': 'vlib/astsmt.py', 'serves_properties': ['C11', 'C12', 'C16'], 'kind_free_text': 'Python AST -> SMT (z3 Int/Real, cvc5 Float64) regenerated from inspect.getsource each run'},
   {'name': 'E3 schedsmt', 'path': 'vlib/schedsmt.py', 'serves_properties': ['C18'], 'kind_free_text': 'SMT synthesis of thread schedules over recorded shared accesses, replayed on real threads'},
   {'name': 'E4 rxamb', 'path': 'vlib/rxamb.py', 'serves_properties': ['C06'], 'kind_free_text': 'z3 search for exponential-ambiguity witnesses in the live regex objects'},
 ],
 'checks': checks,
 'not_applicable': na,
 'notes': 'See DESIGN.md (section 7 = as built). Exit codes: 0 ok, 1 VIOLATION, 3 harness error. Known findings and fixed defects: known_findings.json. Seeded changes and what catches them: seeded/, DESIGN.md 7.7.',
}
with open(os.path.join(ROOT, 'MANIFEST.json'), 'w') as f:
    json.dump(m, f, indent=1)
print('checks:', [c['property_id'] for c in checks])
