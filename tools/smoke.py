#!/usr/bin/env python3
"""Plain-CPython smoke test of every E1 obligation at a tier: call it once with the smallest and once with the largest arguments its
preconditions allow.  Catches harness bugs that only show at the thorough tier's larger bounds (index errors in the harness itself)
without running the solver.   usage: VERIF_TIER=thorough .venv/bin/python tools/smoke.py C01 C02 ..."""
import importlib
import inspect
import re
import sys
import time
import traceback

sys.path.insert(0, '/verif')


def bounds(ob):
    lo, hi = {}, {}
    for e in ob.pre:
        for m in re.finditer(r'(-?\d+)\s*<=\s*(\w+)\s*(<=|<)\s*(-?\w+)', e):
            a, name, op, b = m.groups()
            lo[name] = int(a)
            if re.fullmatch(r'-?\d+', b):
                hi[name] = int(b) - (1 if op == '<' else 0)
        for m in re.finditer(r'len\((\w+)\)\s*<=\s*(\d+)', e):
            hi['len:' + m.group(1)] = int(m.group(2))
        for m in re.finditer(r'(\w+)\s*==\s*(-?\d+)', e):
            lo[m.group(1)] = hi[m.group(1)] = int(m.group(2))
    return lo, hi


def args_for(ob, big):
    lo, hi = bounds(ob)
    out = {}
    for name, prm in inspect.signature(ob.fn).parameters.items():
        a = prm.annotation
        if a is bool:
            out[name] = big
        elif a is int:
            out[name] = hi.get(name, 3) if big else lo.get(name, 0)
        elif a is float:
            out[name] = 1.5 if big else 0.0
        elif a is str:
            out[name] = ('a<' * 4)[:hi.get('len:' + name, 2)] if big else ''
        else:
            out[name] = None
    return out


bad = 0
for pid in sys.argv[1:]:
    t0 = time.time()
    mod = importlib.import_module('harness.' + pid)
    n = 0
    for ob in mod.OBLIGATIONS:
        if ob.kind != 'crosshair':
            continue
        for big in (False, True):
            a = args_for(ob, big)
            ns = dict(ob.fn.__globals__)
            try:
                if not all(eval(e, ns, dict(a)) for e in ob.pre):
                    continue
                r = ob.fn(**a)
                n += 1
                if not r:
                    bad += 1
                    print('%s %s returned %r on %r' % (pid, ob.name, r, a))
            except Exception as e:           # noqa: B902
                bad += 1
                print('%s %s RAISED %s: %s on %r\n%s' % (pid, ob.name, type(e).__name__, e, a, traceback.format_exc().splitlines()[-3]))
    print('%s: %d calls in %.0fs' % (pid, n, time.time() - t0))
sys.exit(1 if bad else 0)
