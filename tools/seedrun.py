#!/usr/bin/env python3
"""Try one seeded change against the checks, in a scratch worktree (never in /repo).

usage: tools/seedrun.py <seed dir with patch.diff/demo.py/meta.json> <worktree> [--checks C01,C02] [--tier quick] [--only glob] [--keep]

Steps: sync the worktree to /repo's HEAD, demo must PASS; apply the patch; 94 pinned tests must pass; demo must FAIL;
run the named checks with VERIF_REPO=<worktree>; reset the worktree.  Prints one JSON summary line and (with --keep)
stores patch/demo/meta under /verif/seeded/<name>/.
"""
import argparse
import json
import os
import shutil
import subprocess
import sys
import time

ROOT = os.path.dirname(os.path.dirname(os.path.abspath(__file__)))


def sh(cmd, cwd=None, env=None, timeout=3600):
    p = subprocess.run(cmd, shell=True, cwd=cwd, env=env, capture_output=True, text=True, timeout=timeout)
    return p.returncode, p.stdout + p.stderr


def main():
    ap = argparse.ArgumentParser()
    ap.add_argument('seed')
    ap.add_argument('wt')
    ap.add_argument('--checks', default='')
    ap.add_argument('--tier', default='quick')
    ap.add_argument('--only', default='')
    ap.add_argument('--keep', default='')
    a = ap.parse_args()
    seed, wt = os.path.abspath(a.seed), os.path.abspath(a.wt)
    meta = json.load(open(os.path.join(seed, 'meta.json')))
    pid = meta.get('property')
    env = dict(os.environ, PYTHONPATH=wt + '/src')
    out = {'seed': seed, 'property': pid}
    head = sh('git -C /repo rev-parse HEAD')[1].strip()
    sh('git reset -q --hard && git clean -fdq && git checkout -q --detach %s' % head, cwd=wt)
    out['repo_head'] = head[:7]
    rc, o = sh('/venv/bin/python %s/demo.py' % seed, cwd=wt, env=env)
    out['demo_clean'] = 'PASS' if rc == 0 else 'FAIL(rc=%d) %s' % (rc, o[-300:])
    rc, o = sh('git apply %s/patch.diff' % seed, cwd=wt)
    if rc != 0:
        rc, o = sh('git apply --3way %s/patch.diff' % seed, cwd=wt)
    out['applies'] = rc == 0
    if rc != 0:
        out['apply_error'] = o[-300:]
        sh('git reset -q --hard && git clean -fdq', cwd=wt)
        print(json.dumps(out))
        return 2
    rc, o = sh('/venv/bin/python -m pytest -q -p no:cacheprovider 2>&1 | tail -1', cwd=wt, env=env)
    out['tests'] = o.strip()
    rc, o = sh('/venv/bin/python %s/demo.py' % seed, cwd=wt, env=env)
    out['demo_patched'] = 'FAIL' if rc != 0 else 'PASS(!)'
    out['checks'] = {}
    for cid in [c for c in a.checks.split(',') if c]:
        t0 = time.time()
        cmd = './vcheck %s --tier %s --no-evidence' % (cid, a.tier)
        if a.only:
            cmd += " --only '%s'" % a.only
        rc, o = sh(cmd, cwd=ROOT, env=dict(os.environ, VERIF_REPO=wt), timeout=7200)
        viol = [ln for ln in o.splitlines() if ln.startswith('VIOLATION') or ln.strip().startswith('counterexample')]
        out['checks'][cid] = {'rc': rc, 'wall_s': round(time.time() - t0), 'lines': [v[:400] for v in viol][:8],
                              'summary': [ln for ln in o.splitlines() if 'tier=' in ln][-1:]}
    sh('git reset -q --hard && git clean -fdq', cwd=wt)
    if a.keep:
        dst = os.path.join(ROOT, 'seeded', a.keep)
        os.makedirs(dst, exist_ok=True)
        for f in ('patch.diff', 'demo.py'):
            shutil.copy(os.path.join(seed, f), os.path.join(dst, f))
        m = {'property': pid, 'summary': meta.get('summary'), 'needs': meta.get('needs'), 'files': meta.get('files'),
             'verified': {'repo_head': out['repo_head'], 'demo_on_clean_tree': out['demo_clean'], 'pinned_tests_with_patch': out['tests'],
                          'demo_with_patch': out['demo_patched'],
                          'commands': ['git apply patch.diff (scratch worktree of /repo HEAD)',
                                       'PYTHONPATH=<wt>/src /venv/bin/python -m pytest -q -p no:cacheprovider',
                                       'PYTHONPATH=<wt>/src /venv/bin/python demo.py']},
             'checks_run': out['checks']}
        old = os.path.join(dst, 'meta.json')
        if os.path.exists(old):
            prev = json.load(open(old))
            pc = prev.get('checks_run', {})
            pc.update(m['checks_run'])
            m['checks_run'] = pc
        json.dump(m, open(old, 'w'), indent=1)
    print(json.dumps(out))
    return 0


if __name__ == '__main__':
    sys.exit(main())
