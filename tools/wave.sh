#!/bin/sh
# usage: tools/wave.sh <wave dir, e.g. /tmp/w3> <first m-number, e.g. 5> <PID>...
# For every finished sub-agent result <wave>/<PID>/.scratch/{A,B} (patch.diff, demo.py, meta.json): confirm it in the agent's own
# scratch worktree (demo passes clean, pinned tests pass patched, demo fails patched), run the property's own quick check against
# the patched worktree (VERIF_REPO), and keep it as /verif/seeded/<PID>-m<N>.  One JSON line per seed on stdout.
W="$1"; N0="$2"; shift 2
cd /verif
mkdir -p "$W/stage"
for id in "$@"; do
  for v in A B; do
    d="$W/$id/.scratch/$v"
    if [ -d "$d" ] && [ ! -d "$W/stage/$id-$v" ]; then cp -r "$d" "$W/stage/$id-$v"; fi
  done
  n=$N0
  for v in A B; do
    d="$W/stage/$id-$v"
    if [ -f "$d/patch.diff" ] && [ -f "$d/demo.py" ] && [ -f "$d/meta.json" ]; then
      python3 tools/seedrun.py "$d" "$W/$id" --checks "$id" --tier quick --keep "$id-m$n"
    else
      echo "{\"seed\": \"$d\", \"missing\": true}"
    fi
    n=$((n+1))
  done
done
