#!/bin/sh
# usage: tools/mutcheck.sh <patch.diff> <PID> [extra vcheck args]   -- apply a seeded change to /repo, run pinned tests + check, undo.
P="$1"; ID="$2"; shift 2
cd /repo && git diff --quiet || { echo "/repo not clean"; exit 2; }
git -C /repo apply "$P" || { echo "patch does not apply"; exit 2; }
echo "== pinned tests with patch:"; (cd /repo && /venv/bin/python -m pytest -q -p no:cacheprovider 2>&1 | tail -1)
echo "== check $ID:"; (cd /verif && ./vcheck "$ID" --no-evidence "$@" 2>&1 | grep -v " confirmed " | cut -c1-260 | tail -15)
git -C /repo checkout -- . ; git -C /repo status --short
